"""Pipeline interpreter and stack machine shape rules: R-PIPE-ORDER, R-PIPE-DUAL, R-PIPE-MIN (C03, C10, C12),
R-STACK-DUAL, R-PUSHPOP-DUAL, R-UNDERFLOW-GUARD, R-STACK-LOCAL (C12, C02)."""
import mir
import keys as K
from rulebase import rule, spec
from rules.keysrules import str_eq_guards, flag_tests
from rules.loops import header_phi, leaves, is_carry, is_const_num, _nanish


def pipeline_ctor(cx):
    reg = cx.registry()
    for cpath, c in reg.ctors.items():
        if "pipeline" in c.names:
            return c
    return None


def _step_loop(f):
    """the loop whose header iterates a collection of op::Op"""
    for lp in f.loops():
        t = f.term(lp.header)
        if t["k"] == "call" and "op::Op" in t.get("callee_full", "") and (t.get("callee") or "").endswith("Iterator::next"):
            return lp
    return None


DISPATCH = ("op::Op::apply", "inner_op::pushpop::do_the_push", "inner_op::pushpop::do_the_pop",
            "inner_op::stack::stack_fwd", "inner_op::stack::stack_inv")


@rule("R-PIPE-ORDER", ["C03", "C02"])
def r_pipe_order(cx):
    c = pipeline_ctor(cx)
    if c is None or not c.fwd or not c.inv:
        cx.ob("R-PIPE-ORDER", "anchor", False, "anchor-missing: the pipeline constructor / its InnerOps were not found")
        return
    for role, fn in (("fwd", c.fwd), ("inv", c.inv)):
        f = cx.f.fn(fn)
        lp = _step_loop(f)
        where = cx.where(f.d["span"])
        if lp is None:
            cx.ob("R-PIPE-ORDER", "%s/step-loop" % role, False, "anchor-missing: no loop over the steps in %s" % fn, where)
            continue
        full = f.term(lp.header).get("callee_full", "")
        rev = "Rev<" in full
        want_rev = role == "inv"
        ok = (rev == want_rev) and "slice::Iter<'_, op::Op>" in full and full.count("Rev<") <= 1 and \
            not any(x in full for x in ("Skip<", "Take<", "StepBy<", "Filter<", "Chain<", "Zip<"))
        cx.ob("R-PIPE-ORDER", "%s/direction" % role, ok,
              "%s iterates the steps %s (%s)" % (fn, "in reverse order" if want_rev else "in definition order", full) if ok
              else "%s must iterate all steps %s, but iterates %s" % (
                  fn, "in reverse order" if want_rev else "in definition order", full), where)
        # the iterated collection is op.steps (field `steps` of the first argument)
        it = mir.strip_refs(f.operand(f.term(lp.header)["args"][0], f.end_point(lp.header)))
        src_ok = _mentions_steps_of_arg1(cx, f, lp)
        cx.ob("R-PIPE-ORDER", "%s/source" % role, src_ok,
              "the loop iterates `op.steps`" if src_ok else "the step loop of %s does not iterate `op.steps`" % fn, where)
        # the loop is left only when the iterator is exhausted
        hdr_blocks = {lp.header} | {s for s in f.succ[lp.header] if f.term(s)["k"] == "switch" and s in lp.body}
        extra = [(a, b) for (a, b) in lp.exits if a not in hdr_blocks]
        cx.ob("R-PIPE-ORDER", "%s/no-early-exit" % role, not extra,
              "the step loop of %s is left only when all steps have been visited" % fn if not extra else
              "the step loop of %s can be left early (%d extra exit edge(s)); the remaining steps are skipped" % (
                  fn, len(extra)), cx.where(f.term(extra[0][0])["span"]) if extra else where)
        # exactly one dispatch per non-skipped iteration
        counts = _dispatch_counts(f, lp)
        okd = counts <= {0, 1} and 1 in counts
        cx.ob("R-PIPE-ORDER", "%s/one-dispatch" % role, okd,
              "every iteration dispatches its step at most once (skip = 0, execute = 1)" if okd else
              "an iteration of the step loop of %s can dispatch %s times" % (fn, sorted(counts)), where)


def _mentions_steps_of_arg1(cx, f, lp):
    import pertuple
    fields = [x["name"] for x in cx.f.lib["adts"]["op::Op"]["variants"][0]["fields"]]
    si = fields.index("steps")
    t = pertuple.iterator_entry_value(f, lp)
    if t is None:
        return False
    found = []

    def visit(x):
        if x[0] == "proj" and x[2] == ("f", si) and x[1][0] == "proj" and x[1][2] == "deref" and x[1][1] == ("arg", 1):
            found.append(1)
        return True

    mir.walk(t, visit)
    return bool(found)


def _dispatch_counts(f, lp):
    """set of possible numbers of dispatch calls on a path through one iteration"""
    from rules.loops import _some_successors
    start = _some_successors(f, lp)
    inn = {}
    work = []
    for s in start:
        inn.setdefault(s, set()).add(0)
        work.append(s)
    result = set()
    while work:
        bb = work.pop()
        cur = set(inn.get(bb, ()))
        t = f.term(bb)
        add = 1 if (t["k"] == "call" and (f.callee(t) or "") in DISPATCH) else 0
        out = {min(c + add, 3) for c in cur}
        for sx in f.succ[bb]:
            if sx == lp.header:
                result |= out
                continue
            if sx not in lp.body:
                continue
            tgt = inn.setdefault(sx, set())
            if not out <= tgt:
                tgt |= out
                work.append(sx)
    return result


@rule("R-PIPE-DUAL", ["C03", "C12"])
def r_pipe_dual(cx):
    c = pipeline_ctor(cx)
    if c is None or not c.fwd or not c.inv:
        cx.ob("R-PIPE-DUAL", "anchor", False, "anchor-missing: pipeline InnerOps not found")
        return
    want = spec("pipeline_dual.json")
    for role, fn in (("fwd", c.fwd), ("inv", c.inv)):
        f = cx.f.fn(fn)
        lp = _step_loop(f)
        where = cx.where(f.d["span"])
        if lp is None:
            cx.ob("R-PIPE-DUAL", "%s/anchor" % role, False, "anchor-missing: no step loop in %s" % fn, where)
            continue
        w = want[role]
        # skip flag: the boolean() test whose true side goes back to the header without dispatching
        skips = []
        for (succ, flag) in flag_tests(f):
            reach = f.reach_from([succ], avoid=[lp.header])
            dispatches = [b for b in reach if f.term(b)["k"] == "call" and (f.callee(f.term(b)) or "") in DISPATCH]
            if succ in lp.body and not dispatches:
                skips.append(flag)
        ok = skips == [w["skip_flag"]]
        cx.ob("R-PIPE-DUAL", "%s/skip-flag" % role, ok,
              "%s skips exactly the steps flagged %s" % (fn, w["skip_flag"]) if ok else
              "%s must skip the steps flagged %r, but skips on %r" % (fn, w["skip_flag"], skips), where)
        # the skip test dominates every dispatch
        if ok:
            tests = [succ for (succ, flag) in flag_tests(f) if flag == w["skip_flag"]]
            disp = [b for b in lp.body if f.term(b)["k"] == "call" and (f.callee(f.term(b)) or "") in DISPATCH]
            # the block of the boolean() call itself
            tb = [bb for bb, t in f.calls() if (f.callee(t) or "") == K.PP + "::boolean" and
                  K._const_key(f.arg_terms(bb)[1]) == w["skip_flag"]]
            okd = bool(tb) and all(f.dominates(tb[0], d) for d in disp)
            cx.ob("R-PIPE-DUAL", "%s/skip-dominates" % role, okd,
                  "the %s test precedes every dispatch in the iteration" % w["skip_flag"] if okd else
                  "a step can be dispatched in %s before/without the %s test" % (fn, w["skip_flag"]), where)
        # direction constant passed to Op::apply
        dirs = []
        for bb, t in f.calls():
            if (f.callee(t) or "") == "op::Op::apply":
                d = f.arg_terms(bb)[3]
                if d[0] == "agg" and isinstance(d[1], tuple):
                    dirs.append(d[1][2])
                else:
                    dirs.append(mir.show(d, maxd=2))
        ok = dirs == [w["direction"]]
        cx.ob("R-PIPE-DUAL", "%s/direction" % role, ok,
              "%s applies ordinary steps with Direction::%s" % (fn, w["direction"]) if ok else
              "%s must apply ordinary steps with Direction::%s, but passes %s" % (fn, w["direction"], dirs), where)
        # name-literal arms
        arms = {}
        tests = str_eq_guards(f)
        for bb, t in f.calls():
            callee = f.callee(t) or ""
            if callee in DISPATCH and callee != "op::Op::apply":
                for (succ, lhs, lit) in tests:
                    if f.dominates(succ, bb):
                        arms.setdefault(lit, []).append(callee.split("::")[-1])
        for lit, wantfn in sorted(w["arms"].items()):
            got = arms.get(lit, [])
            ok = got == [wantfn]
            cx.ob("R-PIPE-DUAL", "%s/arm/%s" % (role, lit), ok,
                  "%s routes a step named %r to %s" % (fn, lit, wantfn) if ok else
                  "%s must route a step named %r to %s, but routes it to %s" % (fn, lit, wantfn, got or "nothing"), where)
        extra = set(arms) - set(w["arms"])
        cx.ob("R-PIPE-DUAL", "%s/no-other-arms" % role, not extra,
              "no undocumented name arms" if not extra else "undocumented name arm(s) %s in %s" % (sorted(extra), fn),
              where, nontrivial=False)


@rule("R-PIPE-MIN", ["C03", "C10", "C12"])
def r_pipe_min(cx):
    c = pipeline_ctor(cx)
    if c is None or not c.fwd or not c.inv:
        cx.ob("R-PIPE-MIN", "anchor", False, "anchor-missing: pipeline InnerOps not found")
        return
    for role, fn in (("fwd", c.fwd), ("inv", c.inv)):
        f = cx.f.fn(fn)
        lp = _step_loop(f)
        where = cx.where(f.d["span"])
        if lp is None:
            cx.ob("R-PIPE-MIN", "%s/anchor" % role, False, "anchor-missing: no step loop in %s" % fn, where)
            continue
        h = lp.header
        # the returned value: len(operands) or the loop's tally n
        rets = []
        for bb in sorted(f.reachable()):
            if f.term(bb)["k"] == "return":
                rets.append(f.local_value(0, f.end_point(bb)))
        tally = None
        okr = True
        lens = 0
        for r in rets:
            for lf in _phi_leaves(r):
                if lf[0] in ("loopphi", "phi") and lf[1][0] == h:
                    tally = lf[1][1]
                elif lf[0] == "call" and isinstance(lf[1], str) and lf[1].endswith("CoordinateSet::len"):
                    lens += 1
                else:
                    okr = False
        if tally is None:
            cx.ob("R-PIPE-MIN", "%s/tally" % role, False,
                  "%s does not return a tally carried through the step loop" % fn, where)
            continue
        cx.ob("R-PIPE-MIN", "%s/returns" % role, okr and lens >= 1,
              "%s returns the tally of the step loop, or operands.len() when no step was executed" % fn if okr and lens >= 1
              else "%s returns something else than the step tally / operands.len()" % fn, where)
        v, preds = header_phi(f, h, tally)
        ok_init = False
        ok_latch = True
        bad = None
        if v is not None:
            for p, o in zip(preds, v[2]):
                if p not in lp.body:
                    ok_init = o[0] == "const" and isinstance(o[2], int) and o[2] == 2 ** 64 - 1
                    continue
                for lf in leaves(o, h):
                    if is_carry(lf, h, tally):
                        continue
                    if lf[0] == "call" and isinstance(lf[1], str) and lf[1].endswith("Ord::min") and len(lf[2]) == 2:
                        a, b = lf[2]
                        other = b if is_carry(a, h, tally) else (a if is_carry(b, h, tally) else None)
                        if other is not None and _all_dispatch_results(other):
                            continue
                    ok_latch = False
                    bad = lf
        cx.ob("R-PIPE-MIN", "%s/init" % role, ok_init,
              "the tally starts at usize::MAX (neutral element of min)" if ok_init else
              "the tally of %s does not start at usize::MAX" % fn, where)
        cx.ob("R-PIPE-MIN", "%s/update" % role, ok_latch,
              "on every path that executes a step the tally becomes min(tally, count returned by that step)" if ok_latch
              else "the tally of %s is not updated as min(tally, step count): %s" % (
                  fn, mir.show(bad, maxd=3) if bad else "?"), where)
        # the replacement of MAX by len() is guarded by n == MAX
        guard_ok = False
        for bb in sorted(f.reachable()):
            sw = f.term(bb)
            if sw["k"] == "switch":
                cnd = f.operand(sw["discr"], f.end_point(bb))
                if cnd[0] == "bin" and cnd[1] == "Eq" and cnd[2][0] in ("loopphi", "phi") and cnd[2][1] == (h, tally) and \
                        cnd[3][0] == "const" and cnd[3][2] == 2 ** 64 - 1:
                    guard_ok = True
        cx.ob("R-PIPE-MIN", "%s/empty-case" % role, guard_ok,
              "operands.len() is reported only when the tally is still usize::MAX (no step executed)" if guard_ok else
              "%s does not guard the operands.len() result by `tally == usize::MAX`" % fn, where)


def _phi_leaves(t, depth=0):
    if t[0] == "phi" and depth < 10 and not (isinstance(t[1], tuple) and len(t[1]) == 2 and False):
        out = []
        for o in t[2]:
            out.extend(_phi_leaves(o, depth + 1))
        return out
    return [t]


def _all_dispatch_results(t, depth=0):
    if t[0] == "phi" and depth < 10:
        return all(_all_dispatch_results(o, depth + 1) for o in t[2])
    return t[0] == "call" and isinstance(t[1], str) and t[1] in DISPATCH


# ---------------------------------------------------------------------------------------------------------------------

PRIMS = ("inner_op::stack::stack_push", "inner_op::stack::stack_pop", "inner_op::stack::stack_roll",
         "inner_op::stack::stack_flip")


def _arg_transform(f, bb):
    """(key read, transform) of the args slice passed to a stack primitive at call block bb"""
    a = f.arg_terms(bb)[2]
    v = mir.strip_refs(f._deref(a, f.end_point(bb)))
    if v[0] == "proj" and v[2] == "slice":
        v = mir.strip_refs(v[1])
    transform = "id"
    steps = 0
    while v[0] in ("mod", "upd") and steps < 6:
        steps += 1
        if v[0] == "mod":
            callee = v[2][1] or ""
            transform = "reverse" if callee.endswith("<impl [T]>::reverse") and transform == "id" else "other"
            v = mir.strip_refs(v[1])
            if v[0] == "proj" and v[2] == "slice":
                v = mir.strip_refs(v[1])
        else:
            base, path, val = v[1], v[2], v[3]
            b0 = mir.strip_refs(base)
            e0 = f._proj1(b0, ("elem", 0))
            e1 = f._proj1(b0, ("elem", 1))
            v0 = mir.strip_refs(val)
            # m - n, plain or overflow-safe (saturating / wrapping / checked-and-unwrapped)
            is_sub = v0 == ("bin", "Sub", e0, e1) or (
                v0[0] == "call" and isinstance(v0[1], str) and v0[1].rsplit("::", 1)[-1] in ("saturating_sub", "wrapping_sub") and
                len(v0[2]) == 2 and mir.strip_refs(v0[2][0]) == mir.strip_refs(e0) and mir.strip_refs(v0[2][1]) == mir.strip_refs(e1))
            if path == (("elem", 1),) and is_sub and transform == "id":
                transform = "m-n"
            else:
                transform = "other"
            v = b0
    key = None
    if v[0] == "call" and isinstance(v[1], str) and v[1].endswith("::unwrap"):
        src = mir.strip_refs(v[2][0])
        if src[0] == "call" and isinstance(src[1], str) and src[1].startswith(K.PP + "::series_as_"):
            key = K._const_key(src[2][1])
    return key, transform


@rule("R-STACK-DUAL", ["C12", "C01"])
def r_stack_dual(cx):
    want = spec("stack_dual.json")
    for role, fn in (("fwd", "inner_op::stack::stack_fwd"), ("inv", "inner_op::stack::stack_inv")):
        if not cx.f.has_fn(fn):
            cx.ob("R-STACK-DUAL", "%s/anchor" % role, False, "anchor-missing: %s not found" % fn)
            continue
        f = cx.f.fn(fn)
        where = cx.where(f.d["span"])
        tests = str_eq_guards(f)
        arms = {}
        for bb, t in f.calls():
            callee = f.callee(t) or ""
            if callee in PRIMS:
                for (succ, lhs, lit) in tests:
                    if f.dominates(succ, bb):
                        key, tr = _arg_transform(f, bb)
                        arms.setdefault(lit, []).append((callee.split("::")[-1], key, tr))
            is_swap = callee.endswith("<impl [T]>::swap")
            which = _swap_which(f, bb) if is_swap else None
            if not is_swap and callee.startswith("inner_op::stack::") and callee not in PRIMS and cx.f.has_fn(callee):
                # a private helper that does the swap (shared by both directions)
                h = cx.f.fn(callee)
                for b2, t2 in h.calls():
                    if (h.callee(t2) or "").endswith("<impl [T]>::swap"):
                        is_swap = True
                        which = _swap_which(h, b2)
            if is_swap:
                for (succ, lhs, lit) in tests:
                    if f.dominates(succ, bb):
                        arms.setdefault(lit, []).append(("swap", None, which))
        for lit, w in sorted(want[role].items()):
            got = arms.get(lit, [])
            exp = (w["primitive"], w.get("key"), w["args"])
            ok = got == [exp]
            cx.ob("R-STACK-DUAL", "%s/%s" % (role, lit), ok,
                  "%s: action %r runs %s on series %r with argument transform %s, as documented" % (
                      fn, lit, exp[0], exp[1], exp[2]) if ok else
                  "%s: action %r must run %s(series %r, args %s) but runs %s" % (fn, lit, exp[0], exp[1], exp[2], got or "nothing"),
                  where)


def _swap_which(f, bb):
    """"id" when the two positions exchanged are the top two of the stack (len - 1 and len - 2), else a description"""
    offs = []
    for a in f.arg_terms(bb)[1:]:
        a = mir.strip_refs(a)
        o = None
        if a[0] == "bin" and a[1] == "Sub" and is_const_num(a[3]) and isinstance(a[3][2], int):
            b = mir.strip_refs(a[2])
            if b[0] == "call" and isinstance(b[1], str) and b[1].endswith("::len"):
                o = a[3][2]
        if a[0] == "call" and isinstance(a[1], str) and a[1].rsplit("::", 1)[-1] in ("saturating_sub", "wrapping_sub") and \
                len(a[2]) == 2 and is_const_num(a[2][1]):
            b = mir.strip_refs(a[2][0])
            if b[0] == "call" and isinstance(b[1], str) and b[1].endswith("::len"):
                o = a[2][1][2]
        offs.append(o)
    return "id" if sorted(offs, key=str) == [1, 2] else "positions %s" % ([mir.show(mir.strip_refs(a), maxd=4) for a in f.arg_terms(bb)[1:]],)


def _outer_domain(f, lp):
    """the index set of an outer loop: values of an array literal or a..b"""
    import pertuple
    x = pertuple.iterator_entry_value(f, lp)
    if x is None:
        return None
    enumerated = False
    for _ in range(5):
        if x[0] == "call" and isinstance(x[1], str) and x[1].rsplit("::", 1)[-1] in ("into_iter", "iter", "enumerate") and x[2]:
            if x[1].endswith("enumerate"):
                enumerated = True
            x = mir.strip_refs(x[2][0])
            continue
        if x[0] == "cast":
            x = mir.strip_refs(x[2])
            continue
        break
    if enumerated:
        # (index, element) over an array: the indices are 0..len
        if x[0] == "const" and isinstance(x[2], tuple) and x[2] and x[2][0] == "path" and f.facts is not None:
            import consts
            v = consts.const_value(f.facts, x[2][1])
            return set(range(len(v))) if v is not None else None
        if x[0] == "agg" and x[1] == "array":
            return set(range(len(x[2])))
        return None
    if x[0] == "agg" and x[1] == "array":
        vals = []
        for e in x[2]:
            if is_const_num(e) and isinstance(e[2], int):
                vals.append(e[2])
            else:
                return None
        return set(vals)
    if x[0] == "agg" and isinstance(x[1], tuple) and x[1][1].endswith("Range") and len(x[2]) == 2:
        a, b = x[2]
        if is_const_num(a) and is_const_num(b):
            return set(range(a[2], b[2]))
    return None


@rule("R-PUSHPOP-DUAL", ["C12"])
def r_pushpop_dual(cx):
    import consts
    doms = {}
    for fn in ("inner_op::pushpop::do_the_push", "inner_op::pushpop::do_the_pop"):
        if not cx.f.has_fn(fn):
            cx.ob("R-PUSHPOP-DUAL", "%s/anchor" % fn, False, "anchor-missing: %s" % fn)
            continue
        f = cx.f.fn(fn)
        outer = [lp for lp in f.loops() if lp.parent is None and any(l.parent is lp for l in f.loops())]
        el = consts.const_value(cx.f, fn + "::ELEMENTS")
        if not outer:
            # the inner pass over the operands may be an iterator chain: the loop over the flags is then the top-level
            # loop that tests the flags
            outer = [lp for lp in f.loops() if lp.parent is None and any(
                f.term(b)["k"] == "call" and (f.callee(f.term(b)) or "").endswith("::contains") for b in lp.body)]
        dom = _outer_domain(f, outer[0]) if outer else None
        doms[fn] = dom
        ok = dom is not None and el is not None and dom == set(range(len(el)))
        cx.ob("R-PUSHPOP-DUAL", "%s/domain" % fn.split("::")[-1], ok,
              "%s visits every one of the %d element flags (%s)" % (fn, len(el or []), sorted(dom or [])) if ok else
              "%s iterates %s but there are %d element flags %s: some v_k is never handled" % (
                  fn, sorted(dom) if dom is not None else "an unrecognised domain", len(el or []), el),
              cx.where(f.d["span"]))
    # push visits v_1..v_4, pop visits them in the opposite order
    a = consts.const_value(cx.f, "inner_op::pushpop::do_the_push::ELEMENTS")
    b = consts.const_value(cx.f, "inner_op::pushpop::do_the_pop::ELEMENTS")
    ok = a is not None and b is not None and list(a) == list(reversed(b)) and list(a) == ["v_1", "v_2", "v_3", "v_4"]
    cx.ob("R-PUSHPOP-DUAL", "order", ok,
          "push visits v_1..v_4 and pop visits v_4..v_1" if ok else
          "legacy push/pop do not visit the element flags in opposite orders: %s / %s" % (a, b))


@rule("R-UNDERFLOW-GUARD", ["C12", "C10", "C09"])
def r_underflow_guard(cx):
    """every Vec::pop().unwrap() on the stack in the primitives is dominated by the sufficient side of a comparison of
    the stack length with the demand, and the insufficient side marks all operands with NaN and returns 0"""
    n = 0
    for fn in PRIMS + ("inner_op::pushpop::do_the_pop",):
        if not cx.f.has_fn(fn):
            continue
        f = cx.f.fn(fn)
        where = cx.where(f.d["span"])
        pops = []
        for bb, t in f.calls():
            c = f.callee(t) or ""
            if c.endswith("::unwrap"):
                a = mir.strip_refs(f.arg_terms(bb)[0])
                if a[0] == "call" and isinstance(a[1], str) and a[1].endswith("Vec::<T, A>::pop") and \
                        _rooted_at_arg1(a[2][0]):
                    pops.append(bb)
        stack_index = []
        for bb, t in f.calls():
            c = f.callee(t) or ""
            if (c.endswith("::index_mut") or c.endswith("::index")) and _rooted_at_arg1(f.arg_terms(bb)[0]) and \
                    "Vec<f64>" in t.get("callee_full", "") and "usize" in t.get("callee_full", ""):
                full = t.get("callee_full", "")
                if "[std::vec::Vec<f64>]" in full or "Vec<std::vec::Vec<f64>>" in full:
                    stack_index.append(bb)
                else:
                    # column access stack[depth][i] where stack is a slice: the outer index is a place projection
                    r0 = mir.strip_refs(f.arg_terms(bb)[0])
                    if r0[0] == "proj" and isinstance(r0[2], tuple) and r0[2][0] == "elem" and len(r0[2]) == 3:
                        stack_index.append(bb)
        # `let Some(v) = stack.pop() else { .. }`: the pop is its own depth test, the None side is the failing side
        nmatch = 0
        for bb, t in f.calls():
            if not ((f.callee(t) or "").endswith("Vec::<T, A>::pop") and _rooted_at_arg1(f.arg_terms(bb)[0])):
                continue
            for b2 in sorted(f.reachable()):
                sw = f.term(b2)
                if sw["k"] != "switch":
                    continue
                d = f.operand(sw["discr"], f.end_point(b2))
                if d[0] != "discr":
                    continue
                src = mir.strip_refs(d[1])
                if not (src[0] == "call" and src[3] == bb):
                    continue
                tg = dict((v, x) for v, x in sw["targets"])
                none = tg.get(0, sw["otherwise"] if 1 in tg else None)
                if none is None:
                    continue
                n += 1
                nmatch += 1
                okf = _fails_loudly(f, none)
                cx.ob("R-UNDERFLOW-GUARD", "%s/pop-match%d" % (fn, nmatch - 1), okf,
                      "the empty-stack side of `let Some(..) = stack.pop()` in %s marks the operands with NaN and returns 0" % fn
                      if okf else
                      "the empty-stack side of the pop in %s does not (stomp the operands with NaN and return 0)" % fn,
                      cx.where(t["span"]))
        sites = pops + stack_index
        if not sites:
            continue
        guards = _length_guards(f)
        for k, bb in enumerate(sorted(sites)):
            n += 1
            g = [x for x in guards if f.dominates(x["ok"], bb) and _guard_applies(f, x, bb, bb in pops)]
            okg = bool(g)
            fail_ok = okg and all(_fails_loudly(f, x["fail"]) for x in g[:1])
            loose = [x for x in g if x.get("op") in ("Le", "Gt")]
            if g and len(loose) == len(g):
                cx.ob("R-UNDERFLOW-GUARD", "%s/site%d/exact" % (fn, k), False,
                      "the depth test protecting the stack access in %s also fails when the stack holds exactly as "
                      "many levels as the sub-command needs (`depth <= demand`): a valid program is treated as an "
                      "underflow, all operands become NaN" % fn, cx.where(f.term(g[0]["bb"])["span"]))
            cx.ob("R-UNDERFLOW-GUARD", "%s/site%d" % (fn, k), okg and fail_ok,
                  "stack access in %s is preceded by a depth test whose failing side marks the operands with NaN and "
                  "returns 0" % fn if okg and fail_ok else
                  ("stack access in %s is not dominated by a comparison of the stack depth with the demand" % fn
                   if not okg else
                   "the failing side of the depth test in %s does not (stomp the operands with NaN and return 0)" % fn),
                  cx.where(f.term(bb)["span"]))
    # all or nothing: a sub-command that needs more than the stack holds leaves the stack as it found it - the comparison
    # of the depth with the whole demand comes before the first element is taken off (a loop that pops until the stack
    # runs dry has already thrown away what a later step of the same application would have found there)
    natomic = 0
    for fn in PRIMS:
        if not cx.f.has_fn(fn):
            continue
        f = cx.f.fn(fn)
        guards_ = [g for g in _length_guards(f) if "single" not in g]
        k = 0
        for bb, t in f.calls():
            c = f.callee(t) or ""
            if not ("Vec" in c and c.rsplit("::", 1)[-1] in ("pop", "split_off", "truncate", "drain", "remove", "swap_remove", "clear")):
                continue
            if not _rooted_at_arg1(f.arg_terms(bb)[0]):
                continue
            natomic += 1
            ok = any(f.dominates(g["ok"], bb) for g in guards_)
            cx.ob("R-UNDERFLOW-GUARD", "%s/atomic%d" % (fn, k), ok,
                  "%s takes elements off the stack only after the depth has been compared with the whole demand" % fn if ok else
                  "%s takes elements off the stack before it knows that the stack holds enough: on underflow the elements already "
                  "removed are lost, and a later step of the same pipeline application finds the stack emptied" % fn,
                  cx.where(t["span"]))
            k += 1
    cx.count("R-UNDERFLOW-GUARD", "stack_removals", natomic)
    # depth - X with a loop-invariant X: the subtraction itself must be protected by a test of that very X
    nsub = 0
    for fn in PRIMS:
        if not cx.f.has_fn(fn):
            continue
        f = cx.f.fn(fn)
        guards = _length_guards(f)
        k = 0
        for bb in sorted(f.reachable()):
            t = f.term(bb)
            if t["k"] != "assert" or "Sub" not in str(t.get("msg")):
                continue
            c = f.operand(t["cond"], f.end_point(bb))
            if not (c[0] == "proj" and c[1][0] == "bin" and c[1][1] == "SubWithOverflow"):
                continue
            a, x = c[1][2], c[1][3]
            if not _is_stack_len(a):
                continue
            import pertuple
            if any(pertuple.mentions_loopphi(x, lp.header) for lp in f.loops()) or x[0] == "const":
                continue
            nsub += 1
            g = [y for y in guards if y.get("demand") is not None and mir.strip_refs(y["demand"]) == mir.strip_refs(x)
                 and f.dominates(y["ok"], bb)]
            cx.ob("R-UNDERFLOW-GUARD", "%s/sub%d" % (fn, k), bool(g),
                  "`depth - x` in %s is computed only after `x` has been tested against the stack depth" % fn if g else
                  "%s computes `depth - x` (%s) without a dominating test of this x against the stack depth (the depth "
                  "test there is on another quantity): a demand exceeding the depth panics with a subtraction overflow "
                  "instead of marking the operands NaN" % (fn, mir.show(x)[:50]), cx.where(t["span"]))
            k += 1
    cx.count("R-UNDERFLOW-GUARD", "depth_subtractions", nsub)
    cx.count("R-UNDERFLOW-GUARD", "sites", n)


def _guard_applies(f, g, site, is_pop):
    """an is_empty() test only guarantees one element: it protects a single pop executed in the same loop iteration
    as the test, never an indexed access at depth-1-j"""
    if "single" not in g:
        return True
    if not is_pop:
        return False
    return f.innermost_loop(g["single"]) is f.innermost_loop(site)


def _length_guards(f):
    out = []
    for bb in sorted(f.reachable()):
        sw = f.term(bb)
        if sw["k"] != "switch":
            continue
        c = f.operand(sw["discr"], f.end_point(bb))
        true_succ = sw["otherwise"]
        false_succ = sw["targets"][0][1] if sw["targets"] else None
        if c[0] == "bin" and c[1] in ("Lt", "Gt", "Le", "Ge"):
            l_is_len = _is_stack_len(c[2])
            r_is_len = _is_stack_len(c[3])
            if l_is_len == r_is_len:
                continue
            op = c[1]
            if r_is_len:
                op = {"Lt": "Gt", "Gt": "Lt", "Le": "Ge", "Ge": "Le"}[op]
            # now: len op demand
            demand = c[2] if r_is_len else c[3]
            if op in ("Lt", "Le"):
                out.append({"fail": true_succ, "ok": false_succ, "op": op, "bb": bb, "demand": demand})
            else:
                out.append({"fail": false_succ, "ok": true_succ, "op": op, "bb": bb, "demand": demand})
        elif c[0] == "call" and isinstance(c[1], str) and c[1].endswith("::is_empty"):
            out.append({"fail": true_succ, "ok": false_succ, "single": bb})
    return [g for g in out if g["ok"] is not None and g["fail"] is not None]


def _rooted_at_arg1(t, depth=0):
    t = mir.strip_refs(t)
    if t == ("arg", 1):
        return True
    if t[0] in ("proj", "mod", "upd") and depth < 12:
        return _rooted_at_arg1(t[1], depth + 1)
    if t[0] == "call" and t[2] and depth < 12 and isinstance(t[1], str) and t[1].split("::")[-1] in (
            "deref", "deref_mut", "index", "index_mut", "as_mut_slice", "as_slice"):
        return _rooted_at_arg1(t[2][0], depth + 1)
    return False


def _is_stack_len(t):
    t = mir.strip_refs(t)
    return t[0] == "call" and isinstance(t[1], str) and (t[1].endswith("::len")) and "Coordinate" not in t[1] and \
        bool(t[2]) and _rooted_at_arg1(t[2][0])


def _fails_loudly(f, start):
    """from `start` every path returns the constant 0 after stomping / writing NaN"""
    reach = f.reach_from([start])
    rets = [b for b in reach if f.term(b)["k"] == "return"]
    if not rets:
        return False
    stomps = [b for b in reach if f.term(b)["k"] == "call" and (
        (f.callee(f.term(b)) or "").endswith("CoordinateSet::stomp") or
        ((f.callee(f.term(b)) or "").endswith("CoordinateSet::set_coord") and
         _nanish(f._deref(f.arg_terms(b)[2], f.end_point(b)))))]
    if not stomps:
        return False
    # the value returned when coming through `start`
    ok = True
    for r in rets:
        v = f.local_value(0, f.end_point(r))
        lv = _phi_leaves(v)
        if not any(is_const_num(x, 0) for x in lv):
            ok = False
    return ok


@rule("R-STACK-LOCAL", ["C12", "C02"])
def r_stack_local(cx):
    c = pipeline_ctor(cx)
    reg = cx.registry()
    cg = reg.callgraph()
    allowed_callers = {c.fwd, c.inv, "inner_op::stack::stack_fwd", "inner_op::stack::stack_inv"} if c else set()
    targets = set(PRIMS) | {"inner_op::pushpop::do_the_push", "inner_op::pushpop::do_the_pop",
                            "inner_op::stack::stack_fwd", "inner_op::stack::stack_inv"}
    bad = []
    n = 0
    for caller, callees in cg.items():
        for t in callees & targets:
            n += 1
            if caller not in allowed_callers:
                bad.append((caller, t))
    cx.count("R-STACK-LOCAL", "call_edges", n)
    cx.ob("R-STACK-LOCAL", "callers", not bad,
          "the stack primitives are called only from the pipeline interpreter (%d call edges)" % n if not bad else
          "stack primitives are called from outside the pipeline interpreter: %s" % bad[:3])
    # the stack passed down is a local created by Vec::new() in the interpreter
    if c:
        for role, fn in (("fwd", c.fwd), ("inv", c.inv)):
            f = cx.f.fn(fn)
            ok = True
            k = 0
            for bb, t in f.calls():
                if (f.callee(t) or "") in targets:
                    k += 1
                    a = f.arg_terms(bb)[0]
                    root = a[2] if a[0] == "refplace" else None
                    if root is None:
                        ok = False
                        continue
                    entry = [r for r in f.defs().get(root, ()) if r[2] == "calldest" and
                             (f.callee(r[4]) or "").endswith("Vec::<T>::new")]
                    if not entry or not f.dominates(entry[0][0], bb):
                        ok = False
            cx.ob("R-STACK-LOCAL", "%s/fresh-stack" % role, ok and k > 0,
                  "%s passes a stack created by Vec::new() at its own entry to all %d stack calls" % (fn, k) if ok and k else
                  "%s passes a stack that is not a fresh local of this application" % fn, cx.where(f.d["span"]))
    # no static and no field of Op/ParsedParameters/contexts holds a stack
    offenders = []
    for name, cst in cx.f.lib["consts"].items():
        if cst["kind"].startswith("Static") and "Vec<std::vec::Vec<f64>>" in cst["ty"]:
            offenders.append(name)
    for adt, info in cx.f.lib["adts"].items():
        for v in info["variants"]:
            for fld in v["fields"]:
                if "Vec<std::vec::Vec<f64>>" in fld["ty"]:
                    offenders.append("%s.%s" % (adt, fld["name"]))
    cx.ob("R-STACK-LOCAL", "no-persistent-stack", not offenders,
          "no static and no struct field has the type of the coordinate stack" if not offenders else
          "persistent storage of stack type: %s (the stack could leak into a later application)" % offenders)


# ---------------------------------------------------------------------------------------------------------------------
# C03: "modifiers of one step never affect any other step or the enclosing pipeline"

def _mentions(t, needle):
    hit = []

    def v(x):
        if x == needle:
            hit.append(1)
            return False
        return True

    mir.walk(t, v)
    return bool(hit)


@rule("R-PIPE-OWN-PARAMS", ["C03"])
def r_pipe_own_params(cx):
    """The pipeline constructor receives the text of all its steps as `parameters.definition`. That text may be split
    into steps and stored as the descriptor's definition, but it must not be tokenized as the parameter list of the
    pipeline operator itself (ParsedParameters::new splits `definition` at white space, so a trailing modifier of the
    last step - `omit_fwd`, `omit_inv` - would become a modifier of the pipeline, which an enclosing pipeline then
    honours). Rule: the RawParameters handed to ParsedParameters::new in the pipeline constructor does not carry
    the constructor's own `definition`."""
    c = pipeline_ctor(cx)
    f = cx.f.fn(c.path)
    adt = cx.f.lib["adts"]["op::raw_parameters::RawParameters"]
    didx = [x["name"] for x in adt["variants"][0]["fields"]].index("definition")
    own_def = ("proj", ("proj", ("arg", 1), "deref"), ("f", didx))
    n = 0
    for bb, t in f.calls():
        if (f.callee(t) or "") != K.PP + "::new":
            continue
        n += 1
        a = f.arg_terms(bb)[0]
        where = cx.where(t["span"])
        v = f._deref(a, (bb, len(f.stmts(bb))))
        why = None

        def carries_own_text(x):
            y = mir.strip_refs(x)
            return y == ("arg", 1) or y == ("proj", ("arg", 1), "deref") or _mentions(x, own_def)

        if carries_own_text(a) and (mir.strip_refs(a) == ("arg", 1) or v == ("proj", ("arg", 1), "deref")):
            why = "the constructor's own RawParameters (whose definition is the text of all the steps) is passed on unchanged"
        elif v[0] == "call" and isinstance(v[1], str) and v[1] in cx.f.lib["fns"]:
            # a RawParameters built by a function of the crate (RawParameters::new / next / ...): which of its
            # arguments end up in the `definition` of the value it returns?
            import elems as E
            g = cx.f.fn(v[1])
            rt = E.return_term(g)
            dc = g._proj1(rt, ("f", didx)) if rt is not None else None
            used = set()
            if dc is None:
                used = set(range(1, len(v[2]) + 1))
            else:
                def vv(x):
                    if x[0] == "arg":
                        used.add(x[1])
                    return True
                mir.walk(dc, vv)
            if any(carries_own_text(v[2][k - 1]) for k in used if k - 1 < len(v[2])):
                why = "the RawParameters passed on is built (by %s) from the text of the steps" % v[1].rsplit("::", 1)[-1]
        else:
            d = f._proj1(v, ("f", didx))
            if carries_own_text(d) or (_mentions(d, ("arg", 1)) and not _only_other_fields(d, didx)):
                why = "the definition of the RawParameters passed on is derived from the text of the steps"
        cx.ob("R-PIPE-OWN-PARAMS", "pipeline/own-parameters", why is None,
              "the pipeline's own parameters are parsed from its invocation (globals), not from the text of its steps"
              if why is None else
              "pipeline::new: %s: ParsedParameters::new tokenizes it at white space, so the modifiers of a step "
              "(e.g. `addone | addone omit_fwd`) become modifiers of the pipeline itself and an enclosing pipeline "
              "skips the whole nested pipeline" % why, where)
        # ... and it still carries the one-way modifiers of the invocation: it is not made from the copy whose globals
        # had omit_fwd / omit_inv removed for the benefit of the steps (the pipeline as a whole would lose its own flag,
        # and an enclosing pipeline would run it in the direction it must be skipped)
        stripped = []

        def vs(y):
            if y[0] == "mod" and isinstance(y[2], tuple) and len(y[2]) > 1 and isinstance(y[2][1], str) and \
                    y[2][1].rsplit("::", 1)[-1] in ("remove", "retain", "clear") and "BTreeMap" in y[2][1]:
                stripped.append(y)
            return True
        mir.walk(v, vs)
        cx.ob("R-PIPE-OWN-PARAMS", "pipeline/own-modifiers", not stripped,
              "the pipeline's own parameters are parsed from values that still hold the invocation's omit_fwd / omit_inv"
              if not stripped else
              "pipeline::new parses the pipeline's own parameters from the copy of the caller's values from which omit_fwd / "
              "omit_inv were removed (for the steps): a macro step `m:p omit_fwd` whose body is a pipeline loses its one-way "
              "flag and runs in both directions", where)
    cx.count("R-PIPE-OWN-PARAMS", "parse_calls", n)


def _only_other_fields(d, didx):
    """d mentions arg1 only through fields other than `definition` (e.g. the globals)"""
    bad = []

    def v(x):
        if x[0] == "proj" and x[1] == ("proj", ("arg", 1), "deref"):
            if x[2] == ("f", didx):
                bad.append(x)
            return False
        if x == ("arg", 1) or x == ("proj", ("arg", 1), "deref"):
            bad.append(x)
            return False
        return True

    mir.walk(d, v)
    return not bad


# ---------------------------------------------------------------------------------------------------------------------
# R-OMIT-SCOPE (C03, C04): the steps of a pipeline do not inherit the one-way modifiers of its invocation

@rule("R-OMIT-SCOPE", ["C03", "C04"])
def r_omit_scope(cx):
    """`omit_fwd` / `omit_inv` given with a macro invocation end up in the globals of its body. They concern the body
    as a whole (the enclosing pipeline skips it), not the steps inside: every step reads its modifiers through
    chase(globals, locals), so an inherited one would make the inner steps skip themselves when the (inverted) body
    runs in the other direction. In pipeline::new, the parameter frames of the steps are made by `next(step)` on a
    RawParameters other than the constructor's own argument, from whose globals both keys have been removed before
    (the removal dominates the place where the steps are built - a loop, or a closure handed to an iterator chain)."""
    c = pipeline_ctor(cx)
    f = cx.f.fn(c.path)
    NEXTFN = "op::raw_parameters::RawParameters::next"
    # sites where step frames are built: (block, root local of the RawParameters they are built from)
    sites = []
    for bb, t in f.calls():
        if (f.callee(t) or "") != NEXTFN:
            continue
        pl = mir.op_place(t["args"][0])
        if pl is None:
            continue
        root = _root_local_of(f, pl["l"])
        if root == 1 or f.name_of_local.get(root) is None and mir.strip_refs(f.arg_terms(bb)[0]) == ("arg", 1):
            continue        # parameters.next(..): the pipeline's own frame / the copy the steps are derived from
        if f.innermost_loop(bb) is not None or True:
            a1 = f.arg_terms(bb)[1] if len(f.arg_terms(bb)) > 1 else None
            if a1 is not None and K._const_key(a1) is not None:
                continue    # next("literal"): not a step
            sites.append((bb, root))
    for bb, i, st in f.all_stmts():
        if st["k"] == "assign" and st["rv"]["k"] == "agg" and st["rv"].get("agg") == "closure":
            cname = st["rv"].get("closure") or st["rv"].get("adt") or ""
            v = f.rvalue(st["rv"], (bb, i))
            cname = v[1][1] if v[0] == "agg" and isinstance(v[1], tuple) and v[1][0] == "closure" else cname
            if cname and cx.f.has_fn(cname):
                g = cx.f.fn(cname)
                if any((g.callee(t2) or "") == NEXTFN for _, t2 in g.calls()):
                    for o in st["rv"].get("ops", ()):
                        pl = mir.op_place(o)
                        if pl is not None:
                            r = _root_local_of(f, pl["l"])
                            if "RawParameters" in str(f.local_ty(r)) and r != 1:
                                sites.append((bb, r))
    n = 0
    if not sites:
        cx.ob("R-OMIT-SCOPE", "pipeline/steps", False,
              "pipeline::new: no place found where the parameter frames of the steps are derived (by `next`) from a "
              "RawParameters other than the constructor's own argument - the steps inherit the invocation's globals "
              "as they are", cx.where(f.d["span"]))
        cx.count("R-OMIT-SCOPE", "keys", 0)
        return
    rem = {}
    for bb, t in f.calls():
        if (f.callee(t) or "").endswith("BTreeMap::<K, V, A>::remove"):
            a = f.arg_terms(bb)
            k = K._const_key(a[1]) if len(a) > 1 else None
            pl = mir.op_place(t["args"][0])
            rem.setdefault(k, []).append((bb, _root_local_of(f, pl["l"]) if pl is not None else None))
    for key in ("omit_fwd", "omit_inv"):
        n += 1
        rs = rem.get(key, [])
        ok = True
        why = ""
        for (sb, root) in sites:
            mine = [b for b, r in rs if r == root]
            if not mine:
                ok = False
                why = "the key is never removed from the value the steps are built from"
            elif sb in f.reach_from([0], avoid=tuple(mine)):
                ok = False
                why = "the removal is skipped on some path"
        cx.ob("R-OMIT-SCOPE", "pipeline/%s" % key, ok,
              "the steps are built from globals from which `%s` has been removed" % key if ok else
              "pipeline::new hands the invocation's `%s` down to every step of the body (%s): a macro invoked with "
              "`inv %s` then skips its own steps from the inside when run in the other direction" % (key, why, key),
              cx.where(f.term(sites[0][0])["span"]))
    cx.count("R-OMIT-SCOPE", "keys", n)


def _root_local_of(f, l):
    """the variable a reference temporary points into (through reborrows and field projections)"""
    for _ in range(8):
        if f.name_of_local.get(l):
            return l
        defs = f.defs().get(l, ())
        if len(defs) != 1:
            return l
        bb, i, kind = defs[0][0], defs[0][1], defs[0][2]
        if kind != "full" or i is None or i >= len(f.stmts(bb)):
            return l
        s = f.stmts(bb)[i]
        rv = s["rv"]
        if rv["k"] in ("ref", "rawptr"):
            l = rv["place"]["l"]
        elif rv["k"] in ("use", "cast"):
            p = mir.op_place(rv["a"])
            if p is None:
                return l
            l = p["l"]
        else:
            return l
    return l


# ---------------------------------------------------------------------------------------------------------------------
# R-FLIP-SEQUENTIAL (C12): flip is a sequence of exchanges

@rule("R-FLIP-SEQUENTIAL", ["C12"])
def r_flip_sequential(cx):
    """`stack flip=i,j,..` exchanges, one after the other, coordinate element i with the top of the stack, element j
    with the next level, and so on. Each exchange is a swap of the *current* values: what goes to the stack is read from
    the working tuple as the earlier exchanges of the same flip left it (a value carried around the inner loop), not
    from a snapshot of the operand taken before the flip - with a repeated index (`flip=3,3`) the snapshot would put
    the same value on the stack twice and lose another."""
    import pertuple
    f = cx.f.fn("inner_op::stack::stack_flip")
    inner = [lp for lp in f.loops() if lp.parent is not None]
    n = 0
    for lp in inner:
        for bb, i, s in f.all_stmts():
            if bb not in lp.body or s["k"] != "assign" or "deref" not in [p for p in s["place"]["p"] if isinstance(p, str)]:
                continue
            v = f.rvalue(s["rv"], (bb, i))
            arg1 = []
            mir.walk(v, lambda y: (arg1.append(1) if y == ("arg", 1) else None) or True)
            base = mir.strip_refs(v)
            if arg1:
                # unless the value is the stack element itself it is not a store *to* the stack
                b0 = base
                while b0[0] == "proj":
                    b0 = mir.strip_refs(b0[1])
                if b0 == ("arg", 1):
                    continue
            while base[0] == "proj":
                base = mir.strip_refs(base[1])
            n += 1
            ok = base[0] in ("loopphi", "phi", "upd") and (base[0] != "loopphi" or base[1][0] == lp.header)
            if base[0] in ("phi", "upd"):
                ms = pertuple.mentions_loopphi(base, lp.header, f)
                ok = bool(ms)
            cx.ob("R-FLIP-SEQUENTIAL", "stack_flip/to-stack%d" % (n - 1), ok,
                  "the value exchanged onto the stack is read from the working tuple of the running flip" if ok else
                  "stack_flip stores a value read from a copy of the operand taken before the flip (not from the tuple as "
                  "the earlier exchanges left it): with a repeated index, e.g. `flip=3,3`, one value is duplicated on the "
                  "stack and another is lost", cx.where(s.get("span")))
    cx.count("R-FLIP-SEQUENTIAL", "stack_stores", n)


@rule("R-STACK-COUNT", ["C10", "C12"])
def r_stack_count(cx):
    """A step reports how many tuples it handled. The stack sub-commands that move no tuple data (swap) report the number
    of tuples the stack holds values for - the length of a column - never the depth of the stack: with `stack.len()` a
    pipeline of two pushed elements applied to seven tuples reports 2 successes although all seven came through."""
    import elems as E
    n = 0
    for fn in ("inner_op::stack::stack_fwd", "inner_op::stack::stack_inv"):
        if not cx.f.has_fn(fn):
            cx.ob("R-STACK-COUNT", "%s/anchor" % fn, False, "anchor-missing: %s" % fn)
            continue
        f = cx.f.fn(fn)
        rt = E.return_term(f)
        leaves = []

        def collect(t, d=0):
            t = mir.strip_refs(t)
            if t[0] == "phi" and d < 8:
                for o in t[2]:
                    collect(o, d + 1)
            else:
                leaves.append(t)
        if rt is not None:
            collect(rt)
        depth = []
        for t in leaves:
            if t[0] == "call" and isinstance(t[1], str) and t[1].endswith("::len") and t[2]:
                a = mir.strip_refs(t[2][0])
                while a[0] == "proj" and a[2] == "deref":
                    a = mir.strip_refs(a[1])
                if a == ("arg", 1):
                    depth.append(t)
        n += 1
        cx.ob("R-STACK-COUNT", fn.rsplit("::", 1)[-1], not depth,
              "%s never reports the depth of the stack as its number of successes (%d results examined)" % (fn, len(leaves))
              if not depth else
              "%s returns the depth of the stack (`stack.len()`) as the number of tuples handled: the pipeline's count becomes "
              "the number of stack elements" % fn, cx.where(f.d["span"]))
    cx.count("R-STACK-COUNT", "dispatchers", n)
