"""Parameter dependence rules (program slicing): on which parameter reads do the values written by an operator depend?

R-PARAM-MIRROR  (C01): the forward and the inverse function of an invertible operator depend on the same parameters
                       (a parameter that shapes the forward mapping but never reaches the inverse's output cannot be
                       undone by it, and vice versa); reviewed asymmetries are tabled in spec/param_mirror.json.
R-PARAM-EFFECT  (C13): every parameter an operator declares has an effect: it reaches the values written by the forward
                       or the inverse function, directly or through a key the constructor derives from it.
"""
import keys as K
import mir
import pertuple
import slicing
from rulebase import rule, spec
from rules.loops import is_const_num

INDEXED = ("lat", "lon", "x", "y", "k", "ellps")


def param_reads(cx, f):
    """bb -> key for every read of the parameter tables in f. Keys are the user-level spelling: `ellps(0)` reads
    "ellps" (or ellps_0), `lat(1)` reads "lat_1" ..."""
    fx = cx.f
    out = {}
    for r in K.find_reads(fx, f):
        out[r.bb] = r.key
    for bb, t in f.calls():
        callee = f.callee(t) or ""
        if not callee.startswith(K.PP + "::"):
            continue
        acc = callee[len(K.PP) + 2:]
        a = f.arg_terms(bb)
        if acc in INDEXED:
            if len(a) > 1 and is_const_num(a[1]):
                out[bb] = "%s_%d" % (acc, a[1][2])
            else:
                out[bb] = "%s_?" % acc
        elif acc == "boolean" and len(a) > 1:
            k = K._const_key(a[1])
            out[bb] = k if k is not None else "?flag"
    # whole-set uses of the flag table (`for flag in &op.params.boolean`): every flag is read
    bidx = K.pp_fields(fx).index("boolean")
    for bb, t in f.calls():
        callee = f.callee(t) or ""
        if "BTreeSet" in callee and (callee.endswith("::into_iter") or callee.endswith("::iter")):
            a = f.arg_terms(bb)
            if a and _is_boolean_table(a[0], bidx):
                out[bb] = "?anyflag"
    return out


def _is_boolean_table(t, bidx):
    if t[0] == "refplace":
        return bool(t[3]) and t[3][-1] == ("f", bidx)
    t = mir.strip_refs(t)
    return t[0] == "proj" and t[2] == ("f", bidx)


def _takes_operands(f, t):
    for a in t["args"]:
        pl = mir.op_place(a)
        if pl is not None and "CoordinateSet" in str(f.local_ty(pl["l"])):
            return True
    return False


def deps(cx, fnp, mod, mode, depth=0, _memo=None):
    """parameter keys the outputs of function `fnp` depend on.
    mode "writes": outputs = the coordinate tuples written (directly or by a module-local delegate that is handed
    the operands); mode "ret": outputs = the return value and everything reachable through `&mut` arguments."""
    if _memo is None:
        _memo = {}
    if (fnp, mode) in _memo:
        return _memo[(fnp, mode)]
    _memo[(fnp, mode)] = set()
    fx = cx.f
    f = fx.fn(fnp)
    seedL, seedB, delegates = set(), set(), []
    if mode == "writes":
        for pt in pertuple.per_tuple_loops(f):
            for bb, m in pt.writes:
                seedB.add(bb)
                u, _ = f._term_uses_defs(f.term(bb))
                seedL |= u
        for bb, t in f.calls():
            c = f.callee(t) or ""
            if c.startswith(mod) and c != fnp and c in fx.lib["fns"] and _takes_operands(f, t):
                seedB.add(bb)
                u, _ = f._term_uses_defs(t)
                seedL |= u
                delegates.append(c)
    else:
        seedL.add(0)
        for i in range(1, f.nargs + 1):
            if str(f.local_ty(i)).startswith("&mut"):
                seedL.add(i)
    R, RB = slicing.backward_slice(f, seedL, seedB)
    out = set()
    for bb, k in param_reads(cx, f).items():
        if f.term(bb)["dest"]["l"] in R:
            out.add(k)
    if depth < 4:
        for c in delegates:
            out |= deps(cx, c, mod, "writes", depth + 1, _memo)
        for bb, t in f.calls():
            c = f.callee(t) or ""
            if c.startswith(mod) and c != fnp and c in fx.lib["fns"] and (t["dest"]["l"] in R or bb in RB):
                out |= deps(cx, c, mod, "ret", depth + 1, _memo)
                # a helper that reads the parameter named by one of its arguments (`explicit_or_element(&params, "x",
                # ..)`): the key is the literal at the call site
                g = fx.fn(c)
                keyed = set()
                for b2, t2 in g.calls():
                    cal2 = g.callee(t2) or ""
                    if cal2.startswith(K.PP + "::"):
                        a2 = g.arg_terms(b2)
                        if len(a2) > 1 and mir.strip_refs(a2[1])[0] == "arg":
                            keyed.add(mir.strip_refs(a2[1])[1])
                args_here = f.arg_terms(bb)
                for j in keyed:
                    if j - 1 < len(args_here):
                        k = K._const_key(args_here[j - 1])
                        if k:
                            out.add(k)
    _memo[(fnp, mode)] = out
    return out


def _mod(cpath):
    return cpath.rsplit("::", 1)[0] + "::"


@rule("R-PARAM-MIRROR", ["C01", "C14", "C05", "C06"])
def r_param_mirror(cx):
    reg = cx.registry()
    table = spec("param_mirror.json")["asymmetric"]
    n = 0
    for cpath, c in sorted(reg.ctors.items()):
        if not c.fwd or not c.inv or c.fwd == c.inv:
            continue
        name = c.names[0]
        a = deps(cx, c.fwd, _mod(cpath), "writes")
        b = deps(cx, c.inv, _mod(cpath), "writes")
        rev = table.get(name, {})
        fo = sorted((a - b) - set(rev.get("fwd_only", ())))
        io = sorted((b - a) - set(rev.get("inv_only", ())))
        n += 1
        ok = not fo and not io
        cx.ob("R-PARAM-MIRROR", name, ok,
              "%s: the values written by forward and inverse depend on the same %d parameters%s" % (
                  name, len(a | b), " (reviewed asymmetry: %s)" % rev["why"] if rev else "") if ok else
              "%s: %s" % (name, "; ".join(
                  (["the forward output depends on %s but the inverse output does not" % ", ".join(fo)] if fo else []) +
                  (["the inverse output depends on %s but the forward output does not" % ", ".join(io)] if io else []))),
              cx.where(cx.f.fn(c.inv).d["span"]), nontrivial=bool(a | b))
    cx.count("R-PARAM-MIRROR", "operators", n)


def _gamut_keys(c):
    out = []
    for g in (c.gamut or []):
        k = g.get("key") if isinstance(g, dict) else getattr(g, "key", None)
        kind = (g.get("__struct") or "").rsplit("::", 1)[-1] if isinstance(g, dict) else None
        if k:
            out.append((k, kind))
    return out


def _covers(declared, deps_keys, kind=None):
    """does a dependence on one of deps_keys account for the declared key?  ellps <-> ellps_0, lat_0 <-> lat_0 ..."""
    if declared in deps_keys:
        return True
    if kind == "Flag" and "?anyflag" in deps_keys:
        return True
    if declared + "_0" in deps_keys:
        return True
    if declared.endswith("_0") and declared[:-2] in deps_keys:
        return True
    return False


@rule("R-PARAM-EFFECT", ["C13"])
def r_param_effect(cx):
    reg = cx.registry()
    rev = spec("param_mirror.json")["no_effect"]
    n = 0
    for cpath, c in sorted(reg.ctors.items()):
        if not c.fwd:
            continue
        name = c.names[0]
        keys = _gamut_keys(c)
        if not keys:
            continue
        mod = _mod(cpath)
        d = set(deps(cx, c.fwd, mod, "writes"))
        if c.inv and c.inv != c.fwd:
            d |= deps(cx, c.inv, mod, "writes")
        d |= deps(cx, cpath, mod, "ret")
        for k, kind in keys:
            if k == "inv":
                continue
            n += 1
            if k in rev.get(name, {}):
                continue
            ok = _covers(k, d, kind)
            cx.ob("R-PARAM-EFFECT", "%s/%s" % (name, k), ok,
                  "%s: the declared parameter `%s` reaches the written values (directly or through a derived key)" % (
                      name, k) if ok else
                  "%s declares the parameter `%s` but nothing the operator writes depends on it: the parameter is "
                  "silently ignored" % (name, k), cx.where(cx.f.fn(cpath).d["span"]))
    cx.count("R-PARAM-EFFECT", "declared_parameters", n)
