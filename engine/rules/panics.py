"""Panic / hang rules: R-ELLPS-VALIDATED, R-LOOP-RANK, R-REC-GUARD (C04, C09, C15)."""
import re

import mir
import keys as K
from rulebase import rule
from rules.loops import header_phi, leaves, is_carry, is_const_num
from pertuple import mentions_loopphi

PP = "op::parsed_parameters::ParsedParameters"
INFINITE_ITER = ("Repeat<", "RepeatWith<", "Cycle<", "RangeFrom<", "FromFn<", "Successors<", "RepeatN<")
INFINITE_CTORS = ("std::iter::repeat", "std::iter::repeat_with", "std::iter::from_fn", "std::iter::successors",
                  "std::iter::Iterator::cycle", "core::iter::repeat", "core::iter::from_fn", "core::iter::successors")


def scope_functions(cx):
    """functions in A u K u public fns of ellipsoid, math::angular, token (+ kp for C20 elsewhere)"""
    reg = cx.registry()
    names = set(reg.apply_reachable())
    names |= reg.reachable_from(["op::Op::new", "op::Op::op"] + list(reg.ctors.keys()))
    for n, d in cx.f.lib["fns"].items():
        if n.startswith(("ellipsoid::", "math::angular::", "token::", "<T as token::", "grid::", "context::",
                         "coordinate::", "math::")):
            names.add(n)
    return sorted(n for n in names if cx.f.has_fn(n))


# ---------------------------------------------------------------------------------------------------------------------

@rule("R-ELLPS-VALIDATED", ["C09"])
def r_ellps_validated(cx):
    sites = []
    for name in cx.f.fn_names():
        f = cx.f.fn(name)
        for bb, t in f.calls():
            c = f.callee(t) or ""
            if c.split("::")[-1] in ("unwrap", "expect") and ("Result" in c or "Option" in c):
                a = f.arg_terms(bb)[0]
                a = mir.strip_refs(a)
                if a[0] == "call" and isinstance(a[1], str) and a[1].endswith("Ellipsoid::named"):
                    sites.append((name, bb))
    cx.count("R-ELLPS-VALIDATED", "unwrap_sites", len(sites))
    if not sites:
        cx.ob("R-ELLPS-VALIDATED", "no-unwrap", True, "no result of Ellipsoid::named is unwrapped anywhere")
        return
    # validation inside ParsedParameters::new: named(value)? in a loop over the text values, on every Ok path
    ok = False
    why = "ParsedParameters::new does not validate ellps* text values with Ellipsoid::named(..)?"
    newname = PP + "::new"
    if cx.f.has_fn(newname):
        f = cx.f.fn(newname)
        import keys as K
        oks = K.ok_blocks(f)
        for bb, t in f.calls():
            c = f.callee(t) or ""
            if not c.endswith("Ellipsoid::named"):
                continue
            lp = f.innermost_loop(bb)
            if lp is None:
                continue
            # the Result goes into `?`
            dest = t["dest"]["l"]
            tried = any(((tt.get("callee") or "").endswith("Try::branch")) and
                        mir.op_place(tt["args"][0]) is not None and mir.op_place(tt["args"][0])["l"] == dest
                        for _, tt in f.calls())
            # the loop iterates the text map that ends up in the result
            ht = f.term(lp.header)
            full = ht.get("callee_full", "")
            over_text = "btree_map::Iter" in full and "String" in full
            dom = all(f.dominates(lp.header, o) for o in oks) if oks else False
            if tried and over_text and dom:
                ok = True
                why = "ParsedParameters::new validates every ellps* text value with Ellipsoid::named(..)? before " \
                      "returning Ok"
    # ... and nobody puts an unvalidated name into the text map afterwards: outside ParsedParameters::new, a value stored
    # under an `ellps*` key of a ParsedParameters' text map is a literal or comes from a validated read (`params.text(..)?`)
    import keys as K
    adt = cx.f.lib["adts"].get(PP)
    fields = [x["name"] for x in adt["variants"][0]["fields"]] if adt else []
    w = 0
    for name in sorted(cx.f.lib["fns"]):
        if "::tests::" in name or name.startswith(PP + "::new"):
            continue
        f = cx.f.fn(name)
        for bb, t in f.calls():
            if not ((f.callee(t) or "").endswith("BTreeMap::<K, V, A>::insert") and "String" in (t.get("callee_full") or "")):
                continue
            a = f.arg_terms(bb)
            key = K._const_key(a[1]) if len(a) > 2 else None
            if not (key and key.startswith("ellps")):
                continue
            recv = a[0]
            path = recv[3] if recv[0] == "refplace" else ()
            if not (path and path[-1][0] == "f" and path[-1][1] < len(fields) and fields[path[-1][1]] == "text"):
                continue
            w += 1
            v = mir.strip_refs(a[2])
            for _ in range(4):
                if v[0] == "proj":
                    v = mir.strip_refs(v[1])
                elif v[0] == "call" and isinstance(v[1], str) and v[1].rsplit("::", 1)[-1] in ("branch", "clone", "to_string", "to_owned", "from", "unwrap") and v[2]:
                    v = mir.strip_refs(v[2][0])
            good = (v[0] == "call" and isinstance(v[1], str) and v[1] == PP + "::text") or \
                (v[0] == "const" and isinstance(v[2], tuple) and v[2][0] == "str")
            cx.ob("R-ELLPS-VALIDATED", "%s/stores-%s" % (name, key), good,
                  "%s stores a validated name under `%s`" % (name, key) if good else
                  "%s stores a value under `%s` of the text map that has not been through the validation of "
                  "ParsedParameters::new (the raw text of the step, e.g. `$from` or `(intl)`): `params.ellps(..)` unwraps "
                  "Ellipsoid::named on it and panics at instantiation" % (name, key), cx.where(t["span"]))
    cx.count("R-ELLPS-VALIDATED", "ellps_writers", w)
    for (name, bb) in sites:
        f = cx.f.fn(name)
        cx.ob("R-ELLPS-VALIDATED", "%s/unwrap%d" % (name, [s for s in sites if s[0] == name].index((name, bb))), ok,
              ("`Ellipsoid::named(..).unwrap()` in %s cannot fail: " % name + why) if ok else
              ("`Ellipsoid::named(..).unwrap()` in %s panics on an unknown ellipsoid name: " % name + why),
              cx.where(f.term(bb)["span"]))


# ---------------------------------------------------------------------------------------------------------------------
# R-LOOP-RANK

CONSUMERS = ("next", "next_back", "find", "position", "rposition", "nth", "find_map")


def _root_local(t):
    """root local of a receiver term such as &mut _5 / &mut (*_7)"""
    t0 = t
    while True:
        if t0[0] == "refplace":
            return t0[2]
        if t0[0] == "ref":
            t0 = t0[2]
            continue
        if t0[0] == "proj":
            t0 = t0[1]
            continue
        if t0[0] in ("loopphi", "phi"):
            return t0[1][1]
        if t0[0] == "mod":
            t0 = t0[1]
            continue
        return None


def _none_successor_leaves(f, lp, res_local, call_bb):
    """the switch on the Option produced at call_bb: does its None side leave the loop for good?"""
    for b2 in sorted(lp.body):
        sw = f.term(b2)
        if sw["k"] != "switch":
            continue
        d = f.operand(sw["discr"], f.end_point(b2))
        none_succ = None
        if d[0] == "discr":
            src = d[1]
            if src[0] == "call" and src[3] == call_bb:
                vals = {v: tgt for v, tgt in sw["targets"]}
                if 0 in vals:
                    none_succ = vals[0]
                elif 1 in vals:
                    none_succ = sw["otherwise"]
        elif d[0] == "call" and isinstance(d[1], str) and d[1].split("::")[-1] in ("is_none", "is_some") and d[2]:
            src = mir.strip_refs(d[2][0])
            if src[0] == "call" and src[3] == call_bb:
                if d[1].endswith("is_none"):
                    none_succ = sw["otherwise"]
                else:
                    none_succ = sw["targets"][0][1] if sw["targets"] else None
        if none_succ is None:
            continue
        if none_succ not in lp.body:
            return True
        reach = f.reach_from([none_succ], avoid=[lp.header])
        if not any(l in reach for l in lp.latches) and lp.header not in f.succ[none_succ]:
            return True
        return False
    return False


def _refill_is_bounded(f, lp, wbb):
    """block wbb (a write to the queue) is dominated by the stay-in-loop side of a test `c > bound` where c is a
    loop-carried integer that is only ever incremented, and the other side leaves the loop"""
    h = lp.header
    for b2 in sorted(lp.body):
        sw = f.term(b2)
        if sw["k"] != "switch" or not f.dominates(b2, wbb):
            continue
        c = f.operand(sw["discr"], f.end_point(b2))
        if c[0] != "bin" or c[1] not in ("Gt", "Ge", "Lt", "Le"):
            continue
        for (x, y, flipped) in ((c[2], c[3], False), (c[3], c[2], True)):
            xx = x
            if xx[0] == "bin" and xx[1] == "Add" and is_const_num(xx[3]):
                xx = xx[2]
            if not (xx[0] in ("loopphi", "phi") and xx[1][0] == h):
                continue
            cell = xx[1][1]
            if mentions_loopphi(y, h):
                continue
            v, preds = header_phi(f, h, cell)
            if v is None:
                continue
            mono = True
            for p, o in zip(preds, v[2]):
                if p not in lp.body:
                    continue
                for lf in leaves(o, h):
                    if is_carry(lf, h, cell):
                        continue
                    if lf[0] == "bin" and lf[1] == "Add" and is_carry(lf[2], h, cell) and is_const_num(lf[3]) and \
                            isinstance(lf[3][2], int) and lf[3][2] > 0:
                        continue
                    mono = False
            if not mono:
                continue
            op = c[1]
            if flipped:
                op = {"Lt": "Gt", "Le": "Ge", "Gt": "Lt", "Ge": "Le"}[op]
            true_succ = sw["otherwise"]
            false_succ = sw["targets"][0][1] if sw["targets"] else None
            # c > bound : true side must leave the loop for good, false side dominates the refill
            if op in ("Gt", "Ge"):
                leave, stay = true_succ, false_succ
            else:
                leave, stay = false_succ, true_succ
            if stay is None or leave is None or not f.dominates(stay, wbb):
                continue
            reach = f.reach_from([leave], avoid=[h])
            if leave in lp.body and (any(l in reach for l in lp.latches) or h in f.succ[leave]):
                continue
            # the increment must happen on the way to the refill: the tested value is carry + k
            if x[0] == "bin" or any(r[0] in lp.body and f.dominates(r[0], wbb) for r in f.defs().get(cell, ())):
                return True
    return False


def rank_loop(f, lp):
    """returns (ranked: bool, description)"""
    h = lp.header
    # (a)/(c): a finite single-pass iterator is advanced on every iteration and its exhaustion leaves the loop
    for bb in sorted(lp.body):
        t = f.term(bb)
        if t["k"] != "call":
            continue
        callee = t.get("callee") or ""
        tail = callee.split("::")[-1]
        if tail not in CONSUMERS or "Iterator" not in callee:
            continue
        if not all(f.dominates(bb, l) for l in lp.latches):
            continue
        full = t.get("callee_full", "")
        if any(x in full for x in INFINITE_ITER):
            continue
        recv = f.operand(t["args"][0], f.end_point(bb))
        root = _root_local(recv)
        if root is None:
            continue
        redefined = [r for r in f.defs().get(root, ()) if r[0] in lp.body and r[2] in ("full", "calldest")]
        if redefined:
            continue
        if not _none_successor_leaves(f, lp, t["dest"]["l"], bb):
            continue
        m = re.search(r"<(.*) as ", full)
        return True, "advances the finite iterator %s on every iteration; exhaustion leaves the loop" % (
            m.group(1) if m else tail)
    # (d): a queue popped on every iteration and never refilled inside the loop
    for bb in sorted(lp.body):
        t = f.term(bb)
        if t["k"] != "call":
            continue
        callee = f.callee(t) or ""
        if not callee.endswith("Vec::<T, A>::pop") and not callee.endswith("VecDeque::<T, A>::pop_front"):
            continue
        if not all(f.dominates(bb, l) for l in lp.latches):
            continue
        recv = f.operand(t["args"][0], f.end_point(bb))
        root = _root_local(recv)
        if root is None:
            continue
        others = [r for r in f.defs().get(root, ()) if r[0] in lp.body and not (r[0] == bb and r[2] == "mod")]
        if others:
            # (d') lexicographic: every refill is preceded by a bounded counter test that leaves the loop when exceeded
            if all(_refill_is_bounded(f, lp, r[0]) for r in others) and _none_successor_leaves(f, lp, t["dest"]["l"], bb):
                return True, "pops a queue on every pass; each refill is guarded by a counter that only grows and is " \
                             "compared with an invariant bound (lexicographic ranking)"
            pending_reason = "pops a queue that is refilled inside the loop (%d other writes to it) without a " \
                             "bound on the number of refills: no ranking function" % len(others)
            return False, pending_reason
        if _none_successor_leaves(f, lp, t["dest"]["l"], bb):
            return True, "pops a queue that is never refilled inside the loop"
    # (b): an integer cell compared with an invariant bound and moved toward it on every path
    for bb in sorted(lp.body):
        sw = f.term(bb)
        if sw["k"] != "switch":
            continue
        if not all(f.dominates(bb, l) for l in lp.latches):
            continue
        c = f.operand(sw["discr"], f.end_point(bb))
        if c[0] != "bin" or c[1] not in ("Lt", "Le", "Gt", "Ge", "Ne"):
            continue
        # which successor stays in the loop?
        stay_true = sw["otherwise"] in lp.body and not (sw["targets"] and sw["targets"][0][1] in lp.body and
                                                         sw["otherwise"] not in lp.body)
        exit_false = sw["targets"] and sw["targets"][0][1] not in lp.body
        exit_true = sw["otherwise"] not in lp.body
        for (x, y, flipped) in ((c[2], c[3], False), (c[3], c[2], True)):
            cell = None
            delta0 = 0
            xx = x
            # allow the tested value to be carry (+/- const) already updated in this iteration
            if xx[0] == "bin" and xx[1] in ("Add", "Sub") and is_const_num(xx[3]):
                xx = xx[2]
            if xx[0] in ("loopphi", "phi") and xx[1][0] == h:
                cell = xx[1][1]
            if cell is None or mentions_loopphi(y, h):
                continue
            if not re.match(r"^(u|i)(8|16|32|64|128|size)$", f.local_ty(cell)):
                continue
            v, preds = header_phi(f, h, cell)
            if v is None:
                continue
            signs = set()
            okc = True
            for p, o in zip(preds, v[2]):
                if p not in lp.body:
                    continue
                for lf in leaves(o, h):
                    if lf[0] == "bin" and lf[1] in ("Add", "Sub") and is_carry(lf[2], h, cell) and is_const_num(lf[3]) \
                            and not is_const_num(lf[3], 0):
                        k = lf[3][2]
                        k = k if isinstance(k, int) else 1
                        signs.add(1 if (lf[1] == "Add") == (k > 0) else -1)
                    else:
                        okc = False
            if not okc or len(signs) != 1:
                continue
            sgn = signs.pop()
            op = c[1]
            if flipped:
                op = {"Lt": "Gt", "Le": "Ge", "Gt": "Lt", "Ge": "Le", "Ne": "Ne"}[op]
            # loop continues while `cell op bound`
            cont_while_true = exit_false and not exit_true
            cont_while_false = exit_true and not exit_false
            if cont_while_true and ((op in ("Lt", "Le") and sgn > 0) or (op in ("Gt", "Ge") and sgn < 0)):
                return True, "counter `%s` moves monotonically toward an invariant bound tested on every iteration" % f.lname(cell)
            if cont_while_false and ((op in ("Ge", "Gt") and sgn > 0) or (op in ("Le", "Lt") and sgn < 0)):
                return True, "counter `%s` moves monotonically toward an invariant bound tested on every iteration" % f.lname(cell)
    return False, "no ranking function found (not a finite iterator advanced on every pass, not a monotone counter " \
                  "against an invariant bound, not an unrefilled queue)"


@rule("R-LOOP-RANK", ["C09", "C04", "C15"])
def r_loop_rank(cx):
    names = scope_functions(cx)
    if cx.pid == "C04":
        names = [n for n in names if n.startswith(("op::", "token::", "<T as token::", "context::"))]
    if cx.pid == "C15":
        names = [n for n in names if n.startswith(("grid::", "context::plain::", "<grid::"))]
    nloops = 0
    nonfor = 0
    for name in names:
        f = cx.f.fn(name)
        for n, lp in enumerate(f.loops()):
            nloops += 1
            ok, why = rank_loop(f, lp)
            ht = f.term(lp.header)
            is_for = (ht.get("span", {}).get("exp") or "").startswith("desugar:ForLoop")
            if not is_for:
                nonfor += 1
            cx.ob("R-LOOP-RANK", "%s/loop%d" % (name, n), ok,
                  "loop in %s terminates: %s" % (name, why) if ok else
                  "loop in %s may not terminate: %s" % (name, why), cx.where(ht["span"]), nontrivial=not is_for)
        for bb, t in f.calls():
            c = f.callee(t) or ""
            if c in INFINITE_CTORS or (t.get("callee") or "") in INFINITE_CTORS:
                cx.ob("R-LOOP-RANK", "%s/infinite-iterator@%s" % (name, c.split("::")[-1]), False,
                      "an unbounded iterator (%s) is constructed in %s; loops over it have no ranking argument" % (c, name),
                      cx.where(t["span"]))
    cx.count("R-LOOP-RANK", "loops", nloops)
    cx.count("R-LOOP-RANK", "non_for_loops", nonfor)


# ---------------------------------------------------------------------------------------------------------------------
# R-REC-GUARD

@rule("R-REC-GUARD", ["C04", "C09"])
def r_rec_guard(cx):
    reg = cx.registry()
    cg = reg.callgraph()
    K = reg.reachable_from(["op::Op::new"] + list(reg.ctors.keys()))
    # explicit indirect edges: `constructor.0(..)` in Op::op may call every registered constructor
    edges = {n: set(x for x in cg.get(n, ()) if x in cg) for n in K}
    opop = "op::Op::op"
    if opop not in edges:
        cx.ob("R-REC-GUARD", "anchor", False, "anchor-missing: op::Op::op not found")
        return
    f = cx.f.fn(opop)
    indirect = [bb for bb, t in f.calls() if t.get("callee") is None]
    if indirect:
        edges[opop] |= set(reg.ctors.keys()) & set(cg.keys())
    # (a) every cycle in K contains Op::op  <=> removing Op::op leaves an acyclic graph
    sub = {n: {m for m in ms if m != opop and m in edges} for n, ms in edges.items() if n != opop}
    color = {}
    cyc = []

    def dfs(u, stack):
        color[u] = 1
        for v in sorted(sub.get(u, ())):
            if color.get(v, 0) == 0:
                dfs(v, stack + [v])
            elif color.get(v) == 1:
                cyc.append(stack[stack.index(v):] + [v] if v in stack else [u, v])
        color[u] = 2

    for n in sorted(sub):
        if color.get(n, 0) == 0:
            dfs(n, [n])
    cx.count("R-REC-GUARD", "construct_reachable_fns", len(K))
    cx.ob("R-REC-GUARD", "cycles-through-Op::op", not cyc,
          "every call cycle among the %d construct-reachable functions (fn-pointer edges to all %d constructors "
          "included) passes through Op::op" % (len(K), len(reg.ctors)) if not cyc else
          "recursion that bypasses the depth guard of Op::op: %s" % " -> ".join(cyc[0]), cx.where(f.d["span"]))
    # (b) the depth test dominates every re-entering call in Op::op
    guard_bb = None
    for bb, t in f.calls():
        if (f.callee(t) or "").endswith("RawParameters::nesting_too_deep"):
            guard_bb = bb
    reenter = []
    for bb, t in f.calls():
        c = f.callee(t)
        if c is None or c == opop or c in reg.ctors or (c and c.endswith("pipeline::new")):
            reenter.append(bb)
    ok = guard_bb is not None and all(f.dominates(guard_bb, b) for b in reenter)
    # and the guard's true branch returns Err without re-entering
    if ok:
        nxt = f.term(guard_bb).get("target")
        sw = f.term(nxt) if nxt is not None else None
        if not sw or sw["k"] != "switch":
            ok = False
        else:
            deep = sw["otherwise"]
            reach = f.reach_from([deep])
            if any(b in reach for b in reenter):
                ok = False
    cx.ob("R-REC-GUARD", "guard-dominates", ok,
          "nesting_too_deep() is tested before each of the %d calls in Op::op that can re-enter instantiation, and its "
          "true branch returns without re-entering" % len(reenter) if ok else
          "a call in Op::op that can re-enter instantiation is not dominated by the nesting_too_deep() test",
          cx.where(f.d["span"]))
    # (c) every caller of Op::op other than Op::new passes parameters produced by RawParameters::next
    ncall = 0
    for name in sorted(K):
        g = cx.f.fn(name)
        for bb, t in g.calls():
            if g.callee(t) != opop:
                continue
            if name == "op::Op::new":
                continue
            ncall += 1
            a = mir.strip_refs(g.arg_terms(bb)[0])
            okc = _derives_from_next(a)
            cx.ob("R-REC-GUARD", "%s/call@Op::op/%d" % (name, ncall), okc,
                  "%s re-enters Op::op with parameters produced by RawParameters::next (depth counted)" % name if okc else
                  "%s re-enters Op::op with parameters that do not come from RawParameters::next: the recursion "
                  "depth is not counted on this path" % name, cx.where(t["span"]))
    cx.count("R-REC-GUARD", "reentering_calls", ncall)
    # (d) next() increases the level on all paths; nesting_too_deep compares it with a constant
    nx = "op::raw_parameters::RawParameters::next"
    if cx.f.has_fn(nx):
        g = cx.f.fn(nx)
        import elems
        r = elems.return_term(g)
        okd = False
        lvl = None
        if r is not None and r[0] == "agg":
            # field recursion_level is the last field of RawParameters
            lvl = r[2][-1]
            okd = _strictly_greater_than_self_level(lvl)
        cx.ob("R-REC-GUARD", "next-increments", okd,
              "RawParameters::next returns recursion_level = self.recursion_level + c with c >= 1 on every path" if okd
              else "RawParameters::next does not increase recursion_level on every path: cyclic macro definitions "
                   "recurse without bound", cx.where(g.d["span"]))
    tn = "op::raw_parameters::RawParameters::nesting_too_deep"
    if cx.f.has_fn(tn):
        g = cx.f.fn(tn)
        import elems
        r = elems.return_term(g)
        okn = r is not None and r[0] == "bin" and r[1] in ("Gt", "Ge") and is_const_num(r[3]) and \
            isinstance(r[3][2], int) and r[3][2] <= 10000
        cx.ob("R-REC-GUARD", "limit-constant", okn,
              "nesting_too_deep compares the level with the constant %s" % (r[3][2] if okn else "?") if okn else
              "nesting_too_deep is not `level > constant` with a small constant", cx.where(g.d["span"]))
        # room for what C04 quantifies over: macros nested 50 deep. One macro expansion costs at least c levels (the
        # largest constant `next` adds on a path), so the limit must be at least 50 c - a necessary condition only (see
        # the known finding of R-NEST-UNIT for why it is not sufficient on this tree)
        if okn and cx.pid == "C04" and lvl is not None:
            def addend(t, depth=0):
                t = mir.strip_refs(t)
                if depth > 12:
                    return 0
                if t[0] == "phi":
                    return max([addend(o, depth + 1) for o in t[2]] or [0])
                if t[0] == "bin" and t[1] in ("Add", "AddWithOverflow"):
                    return addend(t[2], depth + 1) + addend(t[3], depth + 1)
                if t[0] == "proj" and mir.strip_refs(t[1])[0] == "bin":
                    return addend(t[1], depth + 1)
                if t[0] == "const" and isinstance(t[2], int):
                    return t[2]
                return 0
            c_ = addend(lvl)
            L = r[3][2]
            okr = c_ >= 1 and L >= 50 * c_
            cx.ob("R-REC-GUARD", "limit-room", okr,
                  "the limit %s leaves room for 50 macro expansions of %s levels each" % (L, c_) if okr else
                  "the nesting limit %s is below 50 macro expansions at %s levels each: well-formed macros nested a few "
                  "levels deep (inside pipelines) are refused as recursive" % (L, c_), cx.where(g.d["span"]))


def _derives_from_next(a, depth=0):
    if a[0] == "call" and isinstance(a[1], str) and a[1].endswith("RawParameters::next"):
        return True
    if a[0] == "upd" and depth < 10:
        return _derives_from_next(a[1], depth + 1)
    if a[0] == "phi" and depth < 10:
        return all(_derives_from_next(o, depth + 1) for o in a[2])
    return False


def _strictly_greater_than_self_level(t, depth=0):
    """t = self.level + c (c>=1), possibly + more, possibly a phi of such"""
    if t[0] == "phi" and depth < 6:
        return all(_strictly_greater_than_self_level(o, depth + 1) for o in t[2])
    if t[0] == "bin" and t[1] == "Add" and is_const_num(t[3]) and isinstance(t[3][2], int) and t[3][2] >= 1:
        base = t[2]
        if _is_self_level(base):
            return True
        return _strictly_greater_than_self_level(base, depth + 1)
    return False


def _is_self_level(t):
    # (*self).recursion_level : proj(proj(arg1, deref), f:3)
    return t[0] == "proj" and isinstance(t[2], tuple) and t[2][0] == "f" and t[1][0] == "proj" and t[1][2] == "deref" \
        and t[1][1] == ("arg", 1)


# ---------------------------------------------------------------------------------------------------------------------
# R-STR-SLICE

def _boundary_safe(t, depth=0):
    """is the byte offset term t certain to fall on a char boundary of the sliced string?  Accepted: 0; the result of
    find/rfind on the same text (Some payload); len() of a whole string; sums of those"""
    import affine as A
    t = mir.strip_refs(t)
    if depth > 12:
        return False
    if A.const_int(t) == 0:
        return True
    if t[0] == "bin" and t[1] == "Add":
        return _boundary_safe(t[2], depth + 1) and _boundary_safe(t[3], depth + 1)
    if t[0] == "call" and isinstance(t[1], str) and t[1].split("::")[-1] == "len":
        return True
    if t[0] == "proj":
        # payload of Some(find(..))
        b = t
        for _ in range(8):
            if b[0] == "proj":
                b = mir.strip_refs(b[1])
            elif b[0] == "call" and isinstance(b[1], str) and b[1].endswith("Try>::branch") and b[2]:
                b = mir.strip_refs(b[2][0])     # `text.find(tag)?`
            else:
                break
        if b[0] == "call" and isinstance(b[1], str) and b[1].split("::")[-1] in ("find", "rfind"):
            return True
    if t[0] in ("phi",):
        return all(_boundary_safe(o, depth + 1) for o in t[2])
    return False


def _ascii_lit(t):
    t = mir.strip_refs(t)
    if t[0] == "const" and isinstance(t[2], tuple) and t[2][0] == "str" and all(ord(ch) < 128 for ch in t[2][1]):
        return t[2][1]
    return None


def _unwrap_str(t):
    t = mir.strip_refs(t)
    for _ in range(6):
        if t[0] == "call" and isinstance(t[1], str) and t[1].rsplit("::", 1)[-1] in ("deref", "as_str", "as_ref", "borrow") and t[2]:
            t = mir.strip_refs(t[2][0])
        else:
            break
    return t


def _behind_ascii_prefix(facts, f, bb, S, off):
    """a constant byte offset k is a char boundary of S when S is known to start with an ASCII literal of at least k
    bytes: a dominating `S.starts_with(lit)` (true side), or S = V[i] with i found by
    `V.iter().position(|x| x.starts_with(lit))`"""
    off = mir.strip_refs(off)
    if not is_const_int(off):
        return False
    k = off[2]
    S = _unwrap_str(S)
    for g in sorted(f.reachable()):
        t = f.term(g)
        if t["k"] != "switch" or g == bb or not f.dominates(g, bb):
            continue
        c = f.operand(t["discr"], f.end_point(g))
        if c[0] == "call" and isinstance(c[1], str) and c[1].endswith("::starts_with") and len(c[2]) == 2:
            lit = _ascii_lit(c[2][1])
            if lit is not None and len(lit) >= k and _unwrap_str(c[2][0]) == S and f.dominates(t["otherwise"], bb):
                return True
    if S[0] == "call" and isinstance(S[1], str) and S[1].rsplit("::", 1)[-1] == "index" and len(S[2]) == 2:
        i = mir.strip_refs(S[2][1])
        while i[0] == "proj":
            i = mir.strip_refs(i[1])
        if i[0] == "call" and isinstance(i[1], str) and i[1].rsplit("::", 1)[-1] == "position" and len(i[2]) == 2:
            clo = mir.strip_refs(i[2][1])
            if clo[0] == "agg" and isinstance(clo[1], tuple) and clo[1][0] == "closure" and facts.has_fn(clo[1][1]):
                g = facts.fn(clo[1][1])
                from elems import return_term
                rt = return_term(g)
                rt = mir.strip_refs(rt) if rt is not None else None
                if rt is not None and rt[0] == "call" and isinstance(rt[1], str) and rt[1].endswith("::starts_with") and len(rt[2]) == 2:
                    lit = _ascii_lit(rt[2][1])
                    # the closure tests its own argument, and the position is taken in the vector that is then indexed
                    V = mir.strip_refs(S[2][0])
                    same_vec = []
                    mir.walk(i[2][0], lambda y: (same_vec.append(1) if mir.strip_refs(y) == V else None) or True)
                    if lit is not None and len(lit) >= k and same_vec:
                        return True
    return False


@rule("R-STR-SLICE", ["C09"])
def r_str_slice(cx):
    """every byte-range slice of a str/String must cut at char boundaries for *every* text"""
    n = 0
    for name in cx.f.fn_names():
        f = cx.f.fn(name)
        k = 0
        for bb, t in f.calls():
            full = t.get("callee_full") or ""
            c = f.callee(t) or ""
            split_like = c.rsplit("::", 1)[-1] in ("split_at", "split_at_mut", "split_at_checked") and "str" in c or \
                ("String" in c and c.rsplit("::", 1)[-1] in ("split_off", "truncate", "insert", "insert_str", "remove", "drain", "replace_range"))
            if split_like and not (t["span"].get("exp") or "").startswith("macro"):
                # byte offsets handed to str::split_at / String::truncate ... must be char boundaries as well
                n += 1
                offs = [x for x in f.arg_terms(bb)[1:2]]
                ok = bool(offs) and all(_boundary_safe(b) or _behind_ascii_prefix(cx.f, f, bb, f.arg_terms(bb)[0], b) for b in offs) \
                    if c.rsplit("::", 1)[-1] not in ("split_at_checked",) else True
                cx.ob("R-STR-SLICE", "%s/slice%d" % (name, k), ok,
                      "%s: %s at an offset that is a char boundary" % (name, c.rsplit("::", 1)[-1]) if ok else
                      "%s calls %s with byte offset %s, which need not be a char boundary: a text with a multi-byte "
                      "character there panics" % (name, c.rsplit("::", 1)[-1], [mir.show(b, maxd=3)[:40] for b in offs]),
                      cx.where(t["span"]))
                k += 1
                continue
            if not ("for str>::index" in c or " str as std::ops::Index" in full or "String as std::ops::Index" in full
                    or "<str as std::ops::Index" in full):
                continue
            if (t["span"].get("exp") or "").startswith("macro"):
                continue
            n += 1
            rng = mir.strip_refs(f.arg_terms(bb)[1])
            bounds = list(rng[2]) if rng[0] == "agg" else []
            if "RangeFull" in full:
                cx.ob("R-STR-SLICE", "%s/slice%d" % (name, k), True, "%s: full-range slice" % name, cx.where(t["span"]),
                      nontrivial=False)
                k += 1
                continue
            ok = bool(bounds) and all(_boundary_safe(b) or _behind_ascii_prefix(cx.f, f, bb, f.arg_terms(bb)[0], b) for b in bounds)
            cx.ob("R-STR-SLICE", "%s/slice%d" % (name, k), ok,
                  "%s: slice bounds %s come from find()/len() of the text and are char boundaries" % (
                      name, [mir.show(b, maxd=2)[:30] for b in bounds]) if ok else
                  "%s slices a string at byte offset(s) %s, which need not be char boundaries: a text with a multi-byte "
                  "character there panics" % (name, [mir.show(b, maxd=3)[:40] for b in bounds]), cx.where(t["span"]))
            k += 1
    cx.count("R-STR-SLICE", "slices", n)


# ---------------------------------------------------------------------------------------------------------------------
# R-SLICE-INDEX-GUARD (C09): list-valued parameters are indexed only after their length has been checked

def _len_of(t):
    """if t is the length of a slice S (PtrMetadata(S) or <[T]>::len(S) / Vec::len): return S"""
    if t[0] == "un" and t[1] == "PtrMetadata":
        return t[2]
    if t[0] == "call" and isinstance(t[1], str) and t[1].rsplit("::", 1)[-1] == "len" and len(t[2]) == 1:
        return t[2][0]
    return None


def _same_slice(a, b):
    return mir.strip_refs(a) == mir.strip_refs(b)


def _safe_successor(f, g, S, k):
    """if block g ends in a branch on a comparison of len(S) with a constant that establishes len > k on one side,
    return that successor"""
    t = f.term(g)
    if t["k"] != "switch":
        return None
    c = f.operand(t["discr"], f.end_point(g))
    if c[0] != "bin" or c[1] not in ("Ne", "Eq", "Lt", "Le", "Gt", "Ge"):
        return None
    op, a, b = c[1], c[2], c[3]
    la, lb = _len_of(a), _len_of(b)
    if la is not None and is_const_int(b):
        n = b[2]
    elif lb is not None and is_const_int(a):
        # const <op> len  ==  len <flipped op> const
        n = a[2]
        la = lb
        op = {"Lt": "Gt", "Le": "Ge", "Gt": "Lt", "Ge": "Le"}.get(op, op)
    else:
        return None
    if not _same_slice(la, S):
        return None
    false_bb = None
    for v, bb in t["targets"]:
        if v == 0:
            false_bb = bb
    true_bb = t["otherwise"]
    if op == "Ne" and n > k:
        return false_bb
    if op == "Eq" and n > k:
        return true_bb
    if op == "Lt" and n >= k + 1:
        return false_bb
    if op == "Le" and n >= k:
        return false_bb
    if op == "Gt" and n >= k:
        return true_bb
    if op == "Ge" and n >= k + 1:
        return true_bb
    return None


def is_const_int(t):
    return t[0] == "const" and isinstance(t[2], int) and not isinstance(t[2], bool)


def _from_series(t, depth=0):
    """key of the list-valued parameter the slice term is read from, if any"""
    found = []

    def v(x):
        if x[0] == "call" and isinstance(x[1], str) and x[1] in (K.PP + "::series", K.PP + "::texts") and len(x[2]) > 1:
            k = K._const_key(x[2][1])
            if k:
                found.append(k)
            return False
        return True

    mir.walk(t, v)
    return found[0] if found else None


@rule("R-SLICE-INDEX-GUARD", ["C09"])
def r_slice_index_guard(cx):
    """In an operator constructor, a list-valued parameter (`params.series(key)`) has whatever length the user wrote.
    Every constant index into it must be dominated by a test of its length that makes the index valid; otherwise a
    short list panics in Context::op instead of giving an error."""
    reg = cx.registry()
    n = 0
    for cpath, c in sorted(reg.ctors.items()):
        mod = cpath.rsplit("::", 1)[0] + "::"
        # apply-time functions read the lists the constructor stored (fixed length by construction): not judged here
        apply = set(reg.reachable_from([x for x in (c.fwd, c.inv) if x], follow_virtual=False))
        for g in sorted(reg.reachable_from([cpath], follow_virtual=False)):
            if not g.startswith(mod) or g in apply:
                continue
            f = cx.f.fn(g)
            for bb in sorted(f.reachable()):
                t = f.term(bb)
                if t["k"] != "assert" or t.get("msg") != "BoundsCheck" or "const" in t["len"]:
                    continue
                idx = f.operand(t["index"], f.end_point(bb))
                if not is_const_int(idx):
                    continue
                ln = f.operand(t["len"], f.end_point(bb))
                S = _len_of(ln)
                if S is None:
                    continue
                key = _from_series(S)
                if key is None:
                    continue
                n += 1
                k = idx[2]
                ok = False
                for gb in sorted(f.reachable()):
                    if not f.dominates(gb, bb) or gb == bb:
                        continue
                    s = _safe_successor(f, gb, S, k)
                    if s is not None and f.dominates(s, bb) and len(f.pred[s]) == 1:
                        ok = True
                        break
                cx.ob("R-SLICE-INDEX-GUARD", "%s/%s[%d]" % (g, key, k), ok,
                      "%s: `%s[%d]` is reached only after a length test that makes it valid" % (g, key, k) if ok else
                      "%s indexes the list parameter `%s` at [%d] without a dominating test of its length: a shorter "
                      "list (e.g. `%s=1`) panics at instantiation instead of being rejected" % (g, key, k, key),
                      cx.where(t["span"]))
    cx.count("R-SLICE-INDEX-GUARD", "sites", n)


# ---------------------------------------------------------------------------------------------------------------------
# R-INSERT-BOUND (C09): Vec::insert / Vec::remove at a constant position need a vector that is long enough

def _vec_minlen(f, v, depth=0):
    """lower bound of the length of the Vec whose value term is v (read off its history)"""
    v = mir.strip_refs(v)
    if depth > 60:
        return 0
    if v[0] == "upd":
        base = _vec_minlen(f, v[1], depth + 1)
        p = v[2][0] if v[2] else None
        if isinstance(p, tuple) and p[0] == "elem" and len(p) > 1 and isinstance(p[1], int):
            return max(base, p[1] + 1)      # v[k] = .. went through: k < len
        return base
    if v[0] == "mod":
        site = v[2]
        callee = site[1] if isinstance(site, tuple) and len(site) > 1 and isinstance(site[1], str) else ""
        tail = callee.rsplit("::", 1)[-1]
        base = _vec_minlen(f, v[1], depth + 1)
        if "Vec" in callee and tail in ("push", "insert"):
            return base + 1
        if "Vec" in callee and tail in ("remove", "pop", "swap_remove"):
            return max(0, base - 1)
        if tail in ("swap", "sort", "sort_unstable", "sort_by", "sort_by_key", "reverse", "index_mut", "iter_mut", "deref_mut", "as_mut_slice"):
            return base
        return 0
    if v[0] == "phi":
        return min([_vec_minlen(f, x, depth + 1) for x in v[2]] or [0])
    if v[0] == "agg" and v[1] == "array":
        return len(v[2])
    return 0


def _nonempty_guard(f, site_bb, V):
    """is site_bb dominated by the non-empty side of a test `V.is_empty()` / `V.join(..)...is_empty()` / len(V) > 0
    on the very same vector value V?"""
    V = mir.strip_refs(V)
    for g in sorted(f.reachable()):
        t = f.term(g)
        if t["k"] != "switch" or not f.dominates(g, site_bb) or g == site_bb:
            continue
        c = f.operand(t["discr"], f.end_point(g))
        neg = False
        while c[0] == "un" and c[1] == "Not":
            c, neg = c[2], not neg
        false_bb = None
        for val, bb in t["targets"]:
            if val == 0:
                false_bb = bb
        true_bb = t["otherwise"]
        s = _safe_successor(f, g, V, 0)
        if s is not None and f.dominates(s, site_bb):
            return True
        if c[0] == "call" and isinstance(c[1], str) and c[1].rsplit("::", 1)[-1] == "is_empty" and c[2]:
            x = c[2][0]
            direct = mir.strip_refs(x) == V
            via_join = []

            def vis(y):
                if y[0] == "call" and isinstance(y[1], str) and y[1].rsplit("::", 1)[-1] in ("join", "concat") and y[2]:
                    r = mir.strip_refs(y[2][0])
                    while r[0] == "call" and isinstance(r[1], str) and r[1].rsplit("::", 1)[-1] in ("deref", "as_slice", "as_ref", "borrow") and r[2]:
                        r = mir.strip_refs(r[2][0])
                    if r == V:
                        via_join.append(1)
                return True
            mir.walk(x, vis)
            # only trimming / copying between the join and the test: an empty vector joins to the empty string
            if direct or via_join:
                nonempty_side = true_bb if neg else false_bb      # is_empty() == false
                if nonempty_side is not None and f.dominates(nonempty_side, site_bb) and nonempty_side != site_bb or \
                        (nonempty_side == site_bb and _single_pred(f, site_bb)):
                    return True
    return False


def _single_pred(f, b):
    return sum(1 for x in f.reachable() if b in f.succ[x]) == 1


@rule("R-INSERT-BOUND", ["C09", "C17"])
def r_insert_bound(cx):
    """`Vec::insert(k, ..)` panics when k > len and `Vec::remove(k)` when k >= len. In the text front end (tokenizer and
    PROJ translator), which sees arbitrary user text, every such call with a constant position is backed by a lower
    bound on the length of that very vector: read off the vector's history (an element k was written, elements were
    pushed), or established by a dominating non-emptiness test of the same vector value; or the position is clamped
    (`len().min(k)`). A vector that has just been rebuilt by filtering has no such bound."""
    n = 0
    for name in sorted(cx.f.lib["fns"]):
        if not name.startswith("token::") or "::tests" in name:
            continue
        f = cx.f.fn(name)
        for bb, t in f.calls():
            c = f.callee(t) or ""
            tail = c.rsplit("::", 1)[-1]
            if not (c.endswith("Vec::<T, A>::insert") or c.endswith("Vec::<T, A>::remove")):
                continue
            a = f.arg_terms(bb)
            if len(a) < 2 or a[0][0] != "refplace":
                continue
            idx = mir.strip_refs(a[1])
            if not is_const_int(idx):
                continue        # symbolic positions: R-REMOVE-PAIR (tidy_proj); clamped positions are fine by construction
            k = idx[2]
            need = k if tail == "insert" else k + 1
            n += 1
            if need == 0:
                ok, how = True, "position 0"
            else:
                V = f.local_value(a[0][2], f.end_point(bb)) if not a[0][3] else None
                have = _vec_minlen(f, V) if V is not None else 0
                if have < need and V is not None and need == 1 and _nonempty_guard(f, bb, V):
                    have = 1
                ok, how = have >= need, "length >= %d" % have
            cx.ob("R-INSERT-BOUND", "%s/%s%d" % (name, tail, n - 1), ok,
                  "%s(%d) on a vector of %s" % (tail, k, how) if ok else
                  "%s calls Vec::%s(%d, ..) on a vector that is not known to hold %d element(s) at that point (it was "
                  "rebuilt or shrunk after the last test): this panics for a step that is empty after filtering, e.g. a "
                  "PROJ step consisting of `inv` only" % (name, tail, k, need), cx.where(t["span"]))
    cx.count("R-INSERT-BOUND", "constant_positions", n)


@rule("R-GRIDS-INDEX-GUARD", ["C09", "C08"])
def r_grids_index_guard(cx):
    """The grid list of an operator has whatever length the `grids=` parameter (and the availability of optional
    grids) gives it - possibly zero. Every `grids[k]` in an operator function is dominated by the non-empty side of an
    emptiness test of that very list (the "nothing to do" early return)."""
    n = 0
    for name in sorted(cx.f.lib["fns"]):
        if not name.startswith("inner_op::") or "::tests" in name:
            continue
        f = cx.f.fn(name)
        for bb, t in f.calls():
            c = f.callee(t) or ""
            if not (c.endswith("ops::Index<I>>::index") and "Vec" in c):
                continue
            a = f.arg_terms(bb)
            if len(a) < 2 or K.receiver_map(cx.f, a[0]) != "grids" or not is_const_int(mir.strip_refs(a[1])):
                continue
            n += 1
            V = mir.strip_refs(a[0])
            ok = mir.strip_refs(a[1])[2] == 0 and _nonempty_guard(f, bb, V)
            cx.ob("R-GRIDS-INDEX-GUARD", "%s/index%d" % (name, n - 1), ok,
                  "grids[%d] is read behind a non-emptiness test of the grid list" % mir.strip_refs(a[1])[2] if ok else
                  "%s reads grids[%d] where the grid list may be empty (no dominating `grids.is_empty()` early return): an "
                  "operator whose only grid is optional and missing (`grids=@missing`) panics when applied" % (
                      name, mir.strip_refs(a[1])[2]), cx.where(t["span"]))
    cx.count("R-GRIDS-INDEX-GUARD", "indexed_grid_lists", n)


# ---------------------------------------------------------------------------------------------------------------------
# R-UNSIGNED-SUB (C09, C13): no unguarded subtraction from a user-given natural number

def _lower_bound(f, site_bb, x):
    """largest lower bound of the unsigned value x established by tests dominating site_bb"""
    x = mir.strip_refs(x)
    lb = 0
    for g in sorted(f.reachable()):
        t = f.term(g)
        if t["k"] != "switch" or g == site_bb or not f.dominates(g, site_bb):
            continue
        c = f.operand(t["discr"], f.end_point(g))
        neg = False
        while c[0] == "un" and c[1] == "Not":
            c, neg = c[2], not neg
        false_bb = None
        for val, bb in t["targets"]:
            if val == 0:
                false_bb = bb
        true_bb = t["otherwise"]

        def side(b):
            return b is not None and b != site_bb and f.dominates(b, site_bb) or (b == site_bb and _single_pred(f, b))
        if c[0] == "call" and isinstance(c[1], str) and c[1].endswith("::contains") and "Range" in c[1] and len(c[2]) == 2:
            r, v = mir.strip_refs(c[2][0]), mir.strip_refs(c[2][1])
            if v == x and r[0] == "agg" and r[2] and is_const_int(r[2][0]) and side(false_bb if neg else true_bb):
                lb = max(lb, r[2][0][2])
        if c[0] == "bin" and c[1] in ("Lt", "Le", "Gt", "Ge", "Eq", "Ne"):
            a, b = mir.strip_refs(c[2]), mir.strip_refs(c[3])
            op = c[1]
            if b == x and is_const_int(a):
                a, b = b, a
                op = {"Lt": "Gt", "Le": "Ge", "Gt": "Lt", "Ge": "Le"}.get(op, op)
            if a == x and is_const_int(b):
                k = b[2]
                T, F = (false_bb, true_bb) if neg else (true_bb, false_bb)
                if op == "Ge" and side(T) or op == "Lt" and side(F):
                    lb = max(lb, k)
                if op == "Gt" and side(T) or op == "Le" and side(F):
                    lb = max(lb, k + 1)
                if k == 0 and (op == "Ne" and side(T) or op == "Eq" and side(F)):
                    lb = max(lb, 1)
    return lb


@rule("R-UNSIGNED-SUB", ["C09", "C13"])
def r_unsigned_sub(cx):
    """A natural-number parameter (`params.natural(..)`: a usize the user wrote) from which a constant is subtracted in
    unsigned arithmetic needs a dominating test that it is at least that constant: otherwise the subtraction panics in
    a debug build and wraps to ~1.8e19 in a release build (utm's central meridian computed as `6 * (zone - 31) + 3`).
    No such subtraction exists on the reviewed tree; the rule is kept alive by a self-test mutant."""
    n = fns = 0
    for name in sorted(cx.f.lib["fns"]):
        if not name.startswith("inner_op::") or "::tests" in name:
            continue
        f = cx.f.fn(name)
        fns += 1
        for bb, i, s in f.all_stmts():
            if not (s["k"] == "assign" and s["rv"]["k"] == "bin" and str(s["rv"].get("op", "")).startswith("Sub")):
                continue
            v = f.rvalue(s["rv"], (bb, i))
            if v[0] != "bin" or not is_const_int(mir.strip_refs(v[3])):
                continue
            lhs = mir.strip_refs(v[2])
            nat = []
            mir.walk(lhs, lambda y: (nat.append(y) if y[0] == "call" and isinstance(y[1], str) and
                                     y[1].endswith("ParsedParameters::natural") else None) or True)
            # the plain value read from the parameter (through `?` / unwrap), not an expression of it
            core = lhs
            while core[0] == "proj" or (core[0] == "call" and isinstance(core[1], str) and
                                        core[1].rsplit("::", 1)[-1] in ("branch", "unwrap", "unwrap_or", "unwrap_or_default", "expect")):
                core = mir.strip_refs(core[1] if core[0] == "proj" else core[2][0])
            if not nat or core not in nat:
                continue
            n += 1
            k = mir.strip_refs(v[3])[2]
            lb = _lower_bound(f, bb, lhs)
            ok = lb >= k
            cx.ob("R-UNSIGNED-SUB", "%s/sub%d" % (name, n - 1), ok,
                  "the natural parameter is known to be >= %d where %d is subtracted" % (lb, k) if ok else
                  "%s subtracts %d from a natural-number parameter that is only known to be >= %d: unsigned underflow "
                  "(panic in debug builds, a wrapped value of about 1.8e19 otherwise)" % (name, k, lb), cx.where(s.get("span")))
    # the same for the number of parts a user text was split into: `parts.len() - k` in the code that takes names and
    # definitions apart (ellipsoid::, op::, token::, context::) needs a dominating test that there are at least k parts
    m = 0
    for name in sorted(cx.f.lib["fns"]):
        if "::tests" in name or not name.startswith(("ellipsoid::", "op::", "token::", "<T as token", "context::", "math::angular")):
            continue
        f = cx.f.fn(name)
        fns += 1
        for bb, i, s in f.all_stmts():
            if not (s["k"] == "assign" and s["rv"]["k"] == "bin" and str(s["rv"].get("op", "")).startswith("Sub")):
                continue
            v = f.rvalue(s["rv"], (bb, i))
            if v[0] != "bin" or not is_const_int(mir.strip_refs(v[3])):
                continue
            lhs = mir.strip_refs(v[2])
            if not (lhs[0] == "call" and isinstance(lhs[1], str) and lhs[1].endswith("::len")):
                continue
            m += 1
            k = mir.strip_refs(v[3])[2]
            lb = _lower_bound(f, bb, lhs)
            cx.ob("R-UNSIGNED-SUB", "%s/len-sub%d" % (name, m - 1), lb >= k,
                  "the length is known to be >= %d where %d is subtracted" % (lb, k) if lb >= k else
                  "%s subtracts %d from a length that is only known to be >= %d at that point: for a text with fewer parts the "
                  "subtraction underflows (panic in debug builds) before any validation is reached" % (name, k, lb),
                  cx.where(s.get("span")))
    cx.ob("R-UNSIGNED-SUB", "scan", fns > 0, "%d operator functions scanned, %d subtraction(s) from natural parameters" % (fns, n), "src/inner_op")
    cx.count("R-UNSIGNED-SUB", "functions_scanned", fns)


# ---------------------------------------------------------------------------------------------------------------------
# R-USER-I64-ARITH (C09, C12): arithmetic on the user's roll arguments cannot overflow

def _sign_of(f, bb, t, depth=0):
    """'nonneg' | 'neg' | None for the signed integer term t at block bb"""
    t = mir.strip_refs(t)
    if depth > 8:
        return None
    if t[0] == "const" and isinstance(t[2], int):
        return "nonneg" if t[2] >= 0 else "neg"
    if t[0] == "call" and isinstance(t[1], str) and t[1].rsplit("::", 1)[-1] in ("abs", "unsigned_abs", "len", "count"):
        return "nonneg"
    if t[0] == "phi":
        ss = {_sign_of(f, bb, o, depth + 1) for o in t[2]}
        return ss.pop() if len(ss) == 1 else None
    for g in sorted(f.reachable()):
        sw = f.term(g)
        if sw["k"] != "switch" or g == bb or not f.dominates(g, bb):
            continue
        c = f.operand(sw["discr"], f.end_point(g))
        if c[0] != "bin" or c[1] not in ("Lt", "Le", "Gt", "Ge"):
            continue
        a, b, op = mir.strip_refs(c[2]), mir.strip_refs(c[3]), c[1]
        if b == t and is_const_int(a):
            a, b = b, a
            op = {"Lt": "Gt", "Le": "Ge", "Gt": "Lt", "Ge": "Le"}[op]
        if a != t or not is_const_int(b):
            continue
        k = b[2]
        false_bb = None
        for val, tb in sw["targets"]:
            if val == 0:
                false_bb = tb
        true_bb = sw["otherwise"]

        def on(side):
            return side is not None and (f.dominates(side, bb) and side != bb or side == bb and _single_pred(f, bb))
        if op == "Lt" and k <= 0 and on(true_bb) or op == "Le" and k < 0 and on(true_bb):
            return "neg"
        if op == "Ge" and k <= 0 and on(false_bb) or op == "Gt" and k < 0 and on(false_bb):
            return "neg"
        if op == "Ge" and k >= 0 and on(true_bb) or op == "Gt" and k >= -1 and on(true_bb):
            return "nonneg"
        if op == "Lt" and k >= 0 and on(false_bb) or op == "Le" and k >= -1 and on(false_bb):
            return "nonneg"
    return None


@rule("R-USER-I64-ARITH", ["C09", "C12"])
def r_user_i64_arith(cx):
    """The arguments of `stack roll=m,n` / `unroll=m,n` reach the stack interpreter as i64 values the user chose (any
    f64 saturates into the i64 range). Every plain `+` / `-` on them (a checked operation in a debug build: overflow is
    a panic) is overflow-free by the signs of its operands - a difference of two values of the same known sign, a sum of
    two of opposite known signs - or it is written with saturating / checked / wrapping arithmetic."""
    n = 0
    for name in sorted(cx.f.lib["fns"]):
        if not name.startswith("inner_op::stack::") or "::tests" in name:
            continue
        f = cx.f.fn(name)
        for bb, i, s in f.all_stmts():
            if not (s["k"] == "assign" and s["rv"]["k"] == "bin"):
                continue
            op = str(s["rv"].get("op", "")).replace("WithOverflow", "")
            if op not in ("Add", "Sub") or "i64" not in str(f.local_ty(s["place"]["l"])):
                continue
            v = f.rvalue(s["rv"], (bb, i))
            if v[0] != "bin":
                continue
            n += 1
            sa, sb = _sign_of(f, bb, v[2]), _sign_of(f, bb, v[3])
            ok = sa is not None and sb is not None and ((op == "Sub" and sa == sb) or (op == "Add" and sa != sb))
            cx.ob("R-USER-I64-ARITH", "%s/%s%d" % (name, op.lower(), n - 1), ok,
                  "%s of a %s and a %s value cannot overflow" % (op, sa, sb) if ok else
                  "%s computes a plain i64 `%s` of two user-controlled roll arguments whose signs are not known: "
                  "`stack unroll=1e19,-1` overflows (a panic in a debug build)" % (name, "-" if op == "Sub" else "+"),
                  cx.where(s.get("span")))
    cx.count("R-USER-I64-ARITH", "i64_operations", n)


@rule("R-ARRAY-INDEX-GUARD", ["C09", "C16"])
def r_array_index_guard(cx):
    """Where the code that takes user text apart (math::angular, op::, token::) writes into or reads from a fixed-size
    array at a computed position - the degrees / minutes / seconds slots of parse_sexagesimal, say - the position is
    known to be below the array's length: by a dominating comparison with a constant not above the length, or because it
    is the induction value of a range / list that stays below it. `if i <= 3 { dms[i] = v }` on a three-element array
    panics for a fourth `:`-separated field instead of rejecting the value."""
    import guards
    import pertuple

    def cint(t):
        t = mir.strip_refs(t)
        return t[2] if t[0] == "const" and isinstance(t[2], int) else None
    n = 0
    for name in sorted(cx.f.lib["fns"]):
        if "::tests::" in name or not name.startswith(("math::angular::", "op::", "token::", "<T as token::")):
            continue
        f = cx.f.fn(name)
        k = 0
        for bb in sorted(f.reachable()):
            t = f.term(bb)
            if t["k"] != "assert" or t.get("msg") != "BoundsCheck":
                continue
            ln = cint(f.operand(t["len"], f.end_point(bb)))
            if ln is None:
                continue
            idx = mir.strip_refs(f.operand(t["index"], f.end_point(bb)))
            if cint(idx) is not None:
                continue
            n += 1
            ok = False
            for at, tv in guards.branch_facts(f, bb):
                at = mir.strip_refs(at)
                if at[0] == "bin" and mir.strip_refs(at[2]) == idx and cint(at[3]) is not None:
                    c = cint(at[3])
                    if (at[1] == "Lt" and tv and c <= ln) or (at[1] == "Le" and tv and c <= ln - 1) or \
                            (at[1] == "Ge" and not tv and c <= ln) or (at[1] == "Gt" and not tv and c <= ln - 1):
                        ok = True
            for lp in f.loops():
                if bb in lp.body and idx in pertuple.induction_terms(f, lp):
                    x = pertuple.iterator_entry_value(f, lp)
                    if x is None:
                        continue
                    x = mir.strip_refs(x)
                    if x[0] == "call" and isinstance(x[1], str) and x[1].endswith("into_iter") and x[2]:
                        x = mir.strip_refs(x[2][0])
                    if x[0] == "agg" and "Range" in str(x[1]) and len(x[2]) == 2 and cint(x[2][1]) is not None and cint(x[2][1]) <= ln:
                        ok = True
                    if x[0] == "agg" and x[1] == "array" and all(cint(e) is not None and 0 <= cint(e) < ln for e in x[2]):
                        ok = True
            cx.ob("R-ARRAY-INDEX-GUARD", "%s/index%d" % (name, k), ok,
                  "%s: the computed position in the %d-element array is known to be below %d" % (name, ln, ln) if ok else
                  "%s indexes a %d-element array at a computed position (%s) that the tests before it do not keep below %d: "
                  "the access panics for user text with more parts than the array has slots" % (
                      name, ln, mir.show(idx, maxd=2)[:50], ln), cx.where(t["span"]))
            k += 1
    cx.ob("R-ARRAY-INDEX-GUARD", "summary", True, "%d computed positions in fixed arrays examined" % n, nontrivial=False)
    cx.count("R-ARRAY-INDEX-GUARD", "sites", n)


@rule("R-NO-MAP-INDEX", ["C09", "C16"])
def r_no_map_index(cx):
    """`map[key]` on a BTreeMap panics when the key is missing. The tokenizer and the instantiation code (token::, op::,
    context::) look keys up in the map a user text was split into, where any key - the operator name `_name` included - may
    be missing (an empty step, a step that starts with `key=value`): they use `get`, never the indexing operator."""
    n = 0
    bad = 0
    for name in sorted(cx.f.lib["fns"]):
        if "::tests" in name or not name.startswith(("token::", "<T as token", "op::", "context::")):
            continue
        f = cx.f.fn(name)
        n += 1
        for bb, t in f.calls():
            c = f.callee(t) or ""
            if "BTreeMap" in c and c.rsplit("::", 1)[-1] == "index":
                bad += 1
                cx.ob("R-NO-MAP-INDEX", "%s/index%d" % (name, bad - 1), False,
                      "%s indexes a map with `[key]`: a text in which that key is missing (an empty definition, a step without an "
                      "operator name) panics instead of giving an error" % name, cx.where(t["span"]))
    cx.ob("R-NO-MAP-INDEX", "summary", True, "%d functions of the tokenizer and instantiation code examined" % n, nontrivial=False)
    cx.count("R-NO-MAP-INDEX", "functions", n)
