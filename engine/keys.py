"""Parameter-table key analysis: which keys a constructor guarantees on every Ok path, and every keyed read of the
tables (panicking or 'soft' = early exit when missing) in constructors and apply-time functions."""
import mir
import consts

PP = "op::parsed_parameters::ParsedParameters"
ACCESSOR_MAP = {"real": "real", "natural": "natural", "integer": "integer", "series": "series", "text": "text",
                "texts": "texts", "uuid": "uuid", "fourier_coefficients": "fourier_coefficients",
                "series_as_usize": "series", "series_as_i64": "series"}
IMPLICIT_REAL = None


def pp_fields(facts):
    a = facts.lib["adts"].get(PP)
    return [f["name"] for f in a["variants"][0]["fields"]]


def implicit_reals(facts):
    out = set()
    for n in consts.find_consts(facts, "ZERO_VALUED_IMPLICIT_GAMUT_ELEMENTS") + consts.find_consts(
            facts, "UNIT_VALUED_IMPLICIT_GAMUT_ELEMENTS"):
        out |= set(consts.const_value(facts, n))
    return out


def receiver_map(facts, t):
    """name of the ParsedParameters field a receiver term points to (last struct field projection), or None"""
    fields = pp_fields(facts)
    t0 = t
    last = None
    if t[0] == "refplace":
        for pj in t[3]:
            if isinstance(pj, tuple) and pj[0] == "f":
                last = pj[1]
        # the local itself may be a ParsedParameters or an Op; field indices: Op.params is field 1
        return _field_name(fields, t[3], None)
    t = mir.strip_refs(t)
    chain = []
    while t[0] == "proj":
        chain.append(t[2])
        t = t[1]
    chain.reverse()
    return _field_name(fields, chain, None)


def _field_name(fields, chain, _):
    fs = [pj[1] for pj in chain if isinstance(pj, tuple) and pj[0] == "f"]
    if not fs:
        return None
    k = fs[-1]
    return fields[k] if k < len(fields) else None


def gamut_guarantees(gamut):
    """(map, key) pairs present on every Ok return of ParsedParameters::new for this gamut"""
    out = set()
    flags = set()
    optional = set()
    for p in gamut or []:
        if not isinstance(p, dict):
            continue
        kind = str(p.get("__struct", "")).split("::")[-1]
        key = p.get("key")
        if kind == "Flag":
            flags.add(key)
        elif kind in ("Real", "Natural", "Integer", "Text"):
            out.add((kind.lower(), key))
        elif kind in ("Series", "Texts"):
            d = p.get("default")
            if isinstance(d, dict) and str(d.get("__ctor", "")).endswith("Some") and d["args"][0] == "":
                optional.add((kind.lower(), key))
            else:
                out.add((kind.lower(), key))
    return out, flags, optional


class Read:
    def __init__(self, fn, bb, mapname, key, kind, how):
        self.fn, self.bb, self.map, self.key, self.kind, self.how = fn, bb, mapname, key, kind, how
        # kind: "panic" | "soft" | "safe";  how: textual description


def _const_key(t):
    t = mir.strip_refs(t)
    if t[0] == "const" and isinstance(t[2], tuple) and t[2][0] == "str":
        return t[2][1]
    return None


def find_reads(facts, f):
    """keyed reads of the parameter tables in function f"""
    reads = []
    # index terms by call block
    producers = {}
    for bb, t in f.calls():
        callee = f.callee(t) or ""
        args = None
        if callee.startswith(PP + "::"):
            acc = callee[len(PP) + 2:]
            if acc in ACCESSOR_MAP:
                args = f.arg_terms(bb)
                key = _const_key(args[1]) if len(args) > 1 else None
                if key is not None:
                    producers[bb] = (ACCESSOR_MAP[acc], key, acc)
        elif callee.endswith("BTreeMap::<K, V, A>::get"):
            args = f.arg_terms(bb)
            m = receiver_map(facts, args[0])
            key = _const_key(args[1])
            if m and key is not None:
                producers[bb] = (m, key, "get")
        elif callee.endswith("as std::ops::Index<&Q>>::index") and "BTreeMap" in callee:
            args = f.arg_terms(bb)
            m = receiver_map(facts, args[0])
            key = _const_key(args[1])
            if m and key is not None:
                reads.append(Read(f.name, bb, m, key, "panic", "map[%r]" % key))
    for bb, (m, key, acc) in producers.items():
        if acc in ("series_as_usize", "series_as_i64"):
            reads.append(Read(f.name, bb, m, key, "panic", "%s(%r) unwraps internally" % (acc, key)))
            continue
        kind, how = _classify_use(f, bb)
        reads.append(Read(f.name, bb, m, key, kind, "%s(%r) %s" % (acc, key, how)))
    return reads


def _classify_use(f, prod_bb):
    """how is the Result/Option produced by the call at prod_bb consumed?"""
    t = f.term(prod_bb)
    dest = t["dest"]["l"]
    # follow simple moves of the destination
    names = {dest}
    changed = True
    while changed:
        changed = False
        for bb, i, s in f.all_stmts():
            if s["k"] == "assign" and not s["place"]["p"] and s["rv"]["k"] == "use":
                pl = mir.op_place(s["rv"]["a"])
                if pl is not None and not pl["p"] and pl["l"] in names and s["place"]["l"] not in names:
                    names.add(s["place"]["l"])
                    changed = True
    verdict = None
    for bb, tt in f.calls():
        for a in tt["args"][:1]:
            pl = mir.op_place(a)
            if pl is None or pl["p"] or pl["l"] not in names:
                continue
            c = f.callee(tt) or ""
            tail = c.split("::")[-1]
            if tail in ("unwrap", "expect"):
                return "panic", ".%s()" % tail
            if tail in ("unwrap_or", "unwrap_or_default", "unwrap_or_else", "is_ok", "is_some", "is_err", "is_none",
                        "ok", "cloned", "copied", "map"):
                verdict = ("safe", ".%s" % tail)
            if tail == "branch":
                verdict = ("safe", "?")
    if verdict:
        return verdict
    # discriminant tested: let-else / if-let / match
    for bb, i, s in f.all_stmts():
        if s["k"] == "assign" and s["rv"]["k"] == "discr" and s["rv"]["place"]["l"] in names:
            return "soft", "matched"
    return "safe", "unused"


def inserts_in(facts, f):
    """(bb, map, key, value term) for `<map>.insert(const key, v)` calls in f on a ParsedParameters field"""
    out = []
    for bb, t in f.calls():
        c = f.callee(t) or ""
        if c.endswith("BTreeMap::<K, V, A>::insert") or c.endswith("BTreeSet::<T, A>::insert"):
            args = f.arg_terms(bb)
            m = receiver_map(facts, args[0])
            key = _const_key(args[1])
            if m and key is not None:
                out.append((bb, m, key, args[2] if len(args) > 2 else None))
    return out


def ok_blocks(f):
    """blocks that construct the Ok(..) result of f (assignment of Result::Ok to the return place)"""
    out = set()
    for bb, i, s in f.all_stmts():
        if s["k"] == "assign" and s["place"]["l"] == 0 and not s["place"]["p"]:
            rv = s["rv"]
            if rv["k"] == "agg" and rv.get("agg") == "adt" and rv.get("vname") == "Ok":
                out.add(bb)
    # functions that return another call's Result directly (e.g. `Op::plain(..)` as tail) have no Ok aggregate
    return out


def must_inserts(facts, f, depth=0):
    """(map,key) inserted on every path to every Ok-construction of f, including through local helpers that take
    &mut Op / &mut ParsedParameters (one level of summaries, recursively to depth 3)"""
    oks = ok_blocks(f)
    ins = inserts_in(facts, f)
    res = set()
    targets = oks if oks else {bb for bb in f.reachable() if f.term(bb)["k"] == "return"}
    for (bb, m, key, _v) in ins:
        if all(f.dominates(bb, o) for o in targets):
            res.add((m, key))
    if depth < 3:
        for bb, t in f.calls():
            c = f.callee(t) or ""
            if facts.has_fn(c) and not c.startswith(PP) and c != f.name:
                g = facts.fn(c)
                sig = g.d.get("sig", "")
                if "&mut op::Op" in sig or "&mut " + PP in sig or "&'a mut op::Op" in sig or "mut op::Op" in sig:
                    if all(f.dominates(bb, o) for o in targets):
                        res |= must_inserts(facts, g, depth + 1)
    return res
