"""Exact arithmetic on truncated series in the third flattening n (engine E3).

A table row k (0-based) of a PolynomialCoefficients half is the coefficient list of a_{k+1}(n) = n * sum_j row[j] n^j,
and the half denotes S(x) = x + sum_k a_k(n) sin(2 k x)   (model read from math::series::taylor::fourier_coefficients
and fourier::sin; the structural part of that reading is checked by rule T-SERIES-MODEL).
Polynomials in n are lists of ORD+1 Fractions (truncated at n^ORD); trigonometric polynomials are dicts
('s'|'c', m) -> poly, meaning sin(2 m x) / cos(2 m x).
"""
import math
from fractions import Fraction as F

ORD = 6


def pz():
    return [F(0)] * (ORD + 1)


def padd(a, b):
    return [x + y for x, y in zip(a, b)]


def pmul(a, b):
    r = pz()
    for i, x in enumerate(a):
        if x == 0:
            continue
        for j, y in enumerate(b):
            if i + j > ORD:
                break
            r[i + j] += x * y
    return r


def pscale(a, c):
    return [x * c for x in a]


def tadd(A, B):
    R = dict(A)
    for k, v in B.items():
        R[k] = padd(R.get(k, pz()), v)
    return R


def tscale(A, p):
    return {k: pmul(v, p) for k, v in A.items()}


def tmul(A, B):
    R = {}

    def acc(k, v):
        if k[0] == 's' and k[1] == 0:
            return
        R[k] = padd(R.get(k, pz()), v)

    for (ta, ma), va in A.items():
        for (tb, mb), vb in B.items():
            p = pmul(va, vb)
            if all(x == 0 for x in p):
                continue
            h = pscale(p, F(1, 2))
            if ta == 's' and tb == 's':
                acc(('c', abs(ma - mb)), h)
                acc(('c', ma + mb), pscale(h, -1))
            elif ta == 'c' and tb == 'c':
                acc(('c', abs(ma - mb)), h)
                acc(('c', ma + mb), h)
            else:
                (sa, cb) = (mb, ma) if ta == 'c' else (ma, mb)
                acc(('s', sa + cb), h)
                d = sa - cb
                if d > 0:
                    acc(('s', d), h)
                elif d < 0:
                    acc(('s', -d), pscale(h, -1))
    return R


def series(M):
    """table half (rows of Fractions) -> trig polynomial of S(x) - x"""
    S = {}
    for i, row in enumerate(M):
        p = pz()
        for j, c in enumerate(row):
            if j + 1 <= ORD:
                p[j + 1] += c
        S[('s', i + 1)] = p
    return S


def const_poly(c):
    return [F(c)] + [F(0)] * ORD


def compose_delta(d, b):
    """d = f(x) - x, b = g(y) - y as trig polys (d = O(n)); returns g(f(x)) - x."""
    one = {('c', 0): const_poly(1)}
    dp = [one]
    for p in range(1, ORD + 1):
        dp.append(tmul(dp[-1], d))
    H = dict(d)
    for (t, k), bk in b.items():
        cosd = {}
        sind = {}
        for p in range(0, ORD + 1):
            coef = F((2 * k) ** p, math.factorial(p))
            if p % 2 == 0:
                cosd = tadd(cosd, tscale(dp[p], const_poly(coef * (-1) ** (p // 2))))
            else:
                sind = tadd(sind, tscale(dp[p], const_poly(coef * (-1) ** ((p - 1) // 2))))
        assert t == 's'
        term = tadd(tmul({('s', k): const_poly(1)}, cosd), tmul({('c', k): const_poly(1)}, sind))
        H = tadd(H, tscale(term, bk))
    return nonzero(H)


def compose(Mf, Mg):
    """h(x) = g(f(x)) - x for table halves Mf, Mg"""
    return compose_delta(series(Mf), series(Mg))


def nonzero(H):
    return {k: v for k, v in H.items() if any(x != 0 for x in v)}


def tsub(A, B):
    return nonzero(tadd(A, {k: pscale(v, -1) for k, v in B.items()}))


def show_residual(H, limit=3):
    out = []
    for k in sorted(H)[:limit]:
        v = H[k]
        terms = ["%s*n^%d" % (c, i) for i, c in enumerate(v) if c != 0]
        out.append("%s(%d·2x): %s" % ("sin" if k[0] == 's' else "cos", k[1], " + ".join(terms[:3])))
    return "; ".join(out)
