"""Thorough tier: checker self-test against the mutant corpus (engine/selftest/<prop>/*.diff)."""
import os
HERE = os.path.dirname(os.path.abspath(__file__))


def run(pid):
    d = os.path.join(HERE, "selftest", pid)
    if not os.path.isdir(d):
        return 0
    import selftest_run
    return selftest_run.run(pid, d)
