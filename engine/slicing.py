"""Backward program slicing on exported MIR (data dependence over locals + control dependence through
post-dominators). Flow-insensitive over locals: MIR temporaries are almost all single-assignment, and named variables
that are re-assigned only make the slice larger. Pointers are followed through mir.Fn.alias().

Used to answer: on which parameter reads do the values an operator writes depend?"""
import mir


def _exit_blocks(f):
    return [b for b in f.reachable() if f.term(b)["k"] in ("return", "unreachable", "resume", "abort")]


def ipdom(f):
    """immediate post-dominators with a virtual exit node -1"""
    if getattr(f, "_ipdom", None) is not None:
        return f._ipdom
    nodes = list(f.reachable())
    succ = {b: [s for s in f.succ[b] if s in nodes] for b in nodes}
    for b in _exit_blocks(f):
        succ[b] = succ[b] + [-1]
    # blocks that cannot reach an exit (infinite loops): connect them to the exit so that they have a post-dominator
    pred = {b: [] for b in nodes}
    pred[-1] = []
    for b, ss in succ.items():
        for s in ss:
            pred[s].append(b)
    # reverse post-order on the reversed graph
    order = []
    seen = set()

    def dfs(x):
        stack = [(x, iter(pred[x]))]
        seen.add(x)
        while stack:
            n, it = stack[-1]
            adv = False
            for p in it:
                if p not in seen:
                    seen.add(p)
                    stack.append((p, iter(pred[p])))
                    adv = True
                    break
            if not adv:
                order.append(n)
                stack.pop()

    dfs(-1)
    order.reverse()
    idx = {b: i for i, b in enumerate(order)}
    ip = {-1: -1}
    changed = True
    while changed:
        changed = False
        for b in order[1:]:
            ps = [s for s in succ.get(b, ()) if s in ip]
            if not ps:
                continue
            new = ps[0]
            for p in ps[1:]:
                a, c = p, new
                while a != c:
                    while idx[a] > idx[c]:
                        a = ip[a]
                    while idx[c] > idx[a]:
                        c = ip[c]
                new = a
            if ip.get(b) != new:
                ip[b] = new
                changed = True
    f._ipdom = ip
    return ip


def control_deps(f):
    """block -> set of branching blocks it is control dependent on (Ferrante/Ottenstein/Warren)"""
    if getattr(f, "_cdeps", None) is not None:
        return f._cdeps
    ip = ipdom(f)
    cd = {}
    for a in f.reachable():
        ss = [s for s in f.succ[a]]
        if len(set(ss)) < 2:
            continue
        stop = ip.get(a)
        for s in set(ss):
            x = s
            guard = 0
            while x is not None and x != stop and x != -1 and guard < 10000:
                cd.setdefault(x, set()).add(a)
                x = ip.get(x)
                guard += 1
    f._cdeps = cd
    return cd


def _branch_uses(f, bb):
    t = f.term(bb)
    uses, _ = f._term_uses_defs(t)
    if t["k"] == "call":
        # a call with an unwind edge is not a data-dependent branch
        return set()
    return uses


def backward_slice(f, seed_locals=(), seed_blocks=()):
    """returns (relevant locals, relevant blocks)"""
    R = set(seed_locals)
    RB = set(seed_blocks)
    al = f.alias()
    cd = control_deps(f)
    stmts = list(f.all_stmts())
    calls = list(f.calls())

    # pointers derived from a pointer of unknown target (an argument): `_x = &mut (*_1).f` is "based on" _1
    base = {}
    for bb, i, st in stmts:
        if st["k"] == "assign" and not st["place"]["p"] and st["rv"]["k"] in ("ref", "rawptr"):
            pl = st["rv"]["place"]
            if pl["p"] and pl["p"][0] == "deref":
                base.setdefault(st["place"]["l"], set()).add(pl["l"])
        elif st["k"] == "assign" and not st["place"]["p"] and st["rv"]["k"] in ("use", "cast"):
            src = mir.op_place(st["rv"]["a"])
            if src is not None and not src["p"]:
                base.setdefault(st["place"]["l"], set()).add(("copy", src["l"]))
    for _ in range(6):
        for l, bs in list(base.items()):
            for b in list(bs):
                b0 = b[1] if isinstance(b, tuple) else b
                for bb2 in base.get(b0, ()):
                    bs.add(bb2 if not isinstance(bb2, tuple) else bb2)
    based_on = {}
    for l, bs in base.items():
        tl = set()
        work = list(bs)
        seen = set()
        while work:
            b = work.pop()
            if b in seen:
                continue
            seen.add(b)
            if isinstance(b, tuple):
                if b[1] in base:
                    work.extend(base[b[1]])
            else:
                tl.add(b)
                work.extend(base.get(b, ()))
        based_on[l] = tl

    def targets(l):
        return {t[0] for t in al.get(l, ())} | based_on.get(l, set())

    changed = True
    it = 0
    while changed and it < 200:
        changed = False
        it += 1
        n0 = (len(R), len(RB))
        # pointers in the slice read what they point to
        for l in list(R):
            R |= targets(l)
        for bb, i, s in stmts:
            if s["k"] != "assign":
                if s["k"] == "setdiscr" and s["place"]["l"] in R:
                    RB.add(bb)
                continue
            pl = s["place"]
            d = pl["l"]
            hit = d in R
            if not hit and pl["p"] and pl["p"][0] == "deref":
                hit = bool(targets(d) & R)
            if hit:
                uses, _ = f._stmt_uses_defs(s)
                R |= uses
                RB.add(bb)
        for bb, t in calls:
            d = t["dest"]["l"]
            hit = d in R
            if not hit:
                # a mutable borrow of a relevant local handed to the callee
                for a in t["args"]:
                    apl = mir.op_place(a)
                    if apl is not None and not apl["p"]:
                        for (tl, path, m) in al.get(apl["l"], ()):
                            if m and tl in R:
                                hit = True
                        if based_on.get(apl["l"], set()) & R and str(f.local_ty(apl["l"])).startswith(("&mut", "*mut")):
                            hit = True
            if hit:
                uses, _ = f._term_uses_defs(t)
                R |= uses
                RB.add(bb)
        for bb in list(RB):
            for a in cd.get(bb, ()):
                if a not in RB:
                    RB.add(a)
                R |= _branch_uses(f, a)
        changed = (len(R), len(RB)) != n0
    return R, RB
