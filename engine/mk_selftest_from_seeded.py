#!/usr/bin/env python3
"""Regenerates engine/selftest/<pid>/seeded.json from seeded/*/detect.json: every seeded change that a check of
property <pid> reports becomes a self-test mutant of that property (the rule must keep firing on it)."""
import glob
import json
import os
HERE = os.path.dirname(os.path.abspath(__file__))
VERIF = os.path.dirname(HERE)
by = {}
for d in sorted(glob.glob(os.path.join(VERIF, "seeded", "C*"))):
    sid = os.path.basename(d)
    det = os.path.join(d, "detect.json")
    if not os.path.exists(det):
        continue
    meta = json.load(open(os.path.join(d, "meta.json")))
    for pid, keys in json.load(open(det)).items():
        if not isinstance(keys, list) or not keys:
            continue
        keys = [k for k in keys if "/floor/" not in k and "no-obligations" not in k]
        if not keys:
            continue
        by.setdefault(pid, []).append({"id": "seeded-" + sid, "patch": "seeded/%s/patch.diff" % sid, "expect": keys[0],
                                       "why": meta.get("title", "")})
for pid, ms in by.items():
    os.makedirs(os.path.join(HERE, "selftest", pid), exist_ok=True)
    json.dump(ms, open(os.path.join(HERE, "selftest", pid, "seeded.json"), "w"), indent=1)
    print(pid, len(ms))
