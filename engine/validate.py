#!/usr/bin/env python3-vt
import json, jsonschema, sys, os, glob
jsonschema.validate(json.load(open('/verif/MANIFEST.json')), json.load(open('/root/.vp/MANIFEST.schema.json')))
print("manifest valid")
s=json.load(open('/root/.vp/EVIDENCE.schema.json'))
man=json.load(open('/verif/MANIFEST.json'))
for c in man['checks']:
    p=c['evidence_file']
    if os.path.exists(p):
        jsonschema.validate(json.load(open(p)), s); print(c['property_id'],'evidence valid')
    else: print(c['property_id'],'NO EVIDENCE')
