"""Affine forms over value-graph terms: term -> ({symbol term: Fraction}, const Fraction), or None."""
from fractions import Fraction


def const_int(t):
    if t[0] == "const" and isinstance(t[2], int) and not isinstance(t[2], bool):
        return t[2]
    return None


def affine(t, depth=0):
    """returns (coeffs dict, const) ; every non-affine subterm becomes a symbol"""
    if depth > 40:
        return ({t: Fraction(1)}, Fraction(0))
    k = const_int(t)
    if k is not None:
        return ({}, Fraction(k))
    if t[0] == "cast":
        kind = t[1]
        if kind.startswith("IntToInt"):
            return affine(t[2], depth + 1)
    if t[0] == "bin" and t[1] in ("Add", "Sub", "AddUnchecked", "SubUnchecked"):
        a, ca = affine(t[2], depth + 1)
        b, cb = affine(t[3], depth + 1)
        sgn = 1 if t[1].startswith("Add") else -1
        out = dict(a)
        for s, c in b.items():
            out[s] = out.get(s, Fraction(0)) + sgn * c
        return ({s: c for s, c in out.items() if c != 0}, ca + sgn * cb)
    if t[0] == "bin" and t[1] in ("Mul", "MulUnchecked"):
        a, ca = affine(t[2], depth + 1)
        b, cb = affine(t[3], depth + 1)
        if not a:
            return ({s: c * ca for s, c in b.items() if c * ca != 0}, ca * cb)
        if not b:
            return ({s: c * cb for s, c in a.items() if c * cb != 0}, ca * cb)
    if t[0] == "bin" and t[1] == "Div":
        a, ca = affine(t[2], depth + 1)
        b, cb = affine(t[3], depth + 1)
        if not b and cb != 0 and not a:
            return ({}, Fraction(int(ca) // int(cb)))
    return ({t: Fraction(1)}, Fraction(0))


def sub(x, y):
    a, ca = x
    b, cb = y
    out = dict(a)
    for s, c in b.items():
        out[s] = out.get(s, Fraction(0)) - c
    return ({s: c for s, c in out.items() if c != 0}, ca - cb)


def show(x):
    a, c = x
    parts = []
    for s, k in a.items():
        parts.append("%s*<%s>" % (k, _short(s)))
    parts.append(str(c))
    return " + ".join(parts)


def _short(t):
    import mir
    return mir.show(t, maxd=2)[:50]
