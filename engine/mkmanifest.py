#!/usr/bin/env python3
"""Regenerates /verif/MANIFEST.json from engine/proptext.py (single source of the per-property wording)."""
import json
import os
import sys
HERE = os.path.dirname(os.path.abspath(__file__))
sys.path.insert(0, HERE)
import proptext  # noqa: E402

VERIF = os.path.dirname(HERE)
checks = []
na = []
for pid in proptext.ALL:
    p = proptext.P.get(pid)
    if p and p.get("claimed"):
        checks.append({
            "property_id": pid,
            "quick_cmd": "./check %s --tier quick" % pid,
            "thorough_cmd": "./check %s --tier thorough" % pid,
            "evidence_file": "/verif/evidence/%s.json" % pid,
            "replay_cmd_template": "./check %s --replay {path}" % pid,
            "engine": "geofacts+rules",
            "level_claimed": {
                "category": "other",
                "text": p["level"] + " Decides: " + "; ".join(p["decides"]) + ". Does not decide: " + "; ".join(p["not_decided"]) + ".",
                "design_ref": p["design_ref"],
            },
            "level_note": "Trusted base: " + "; ".join(proptext.COMMON_ASSUME),
            "technique": p["technique"],
        })
    else:
        na.append({"property_id": pid, "reason": proptext.NA.get(pid) or proptext.not_yet(pid)})

man = {
    "version": 1,
    "setup_cmd": "cd /verif/engine/geofacts && CARGO_NET_OFFLINE=true cargo build --offline",
    "hooks": {
        "guard": "busstoptaktik_geodesy_verif",
        "enable": "none needed: all facts are read from the compiler's HIR/MIR of the unmodified sources (no hook commits)",
        "baseline_off_cmd": "cd /repo && cargo nextest run --workspace --no-fail-fast --test-threads 8 --offline || cargo test --workspace --no-fail-fast --offline",
        "source_commits": [],
        "add_only": True,
    },
    "engines": [
        {"name": "geofacts", "path": "engine/geofacts", "serves_properties": [c["property_id"] for c in checks],
         "kind_free_text": "rustc_private driver exporting MIR, resolved HIR, constant initialisers, ADTs and impls of /repo as JSON facts"},
        {"name": "rules", "path": "engine/rules", "serves_properties": [c["property_id"] for c in checks],
         "kind_free_text": "Python rule engine: CFG/dominators/loops/value-graph dataflow over the MIR facts; exact rational series and table arithmetic"},
    ],
    "checks": checks,
    "not_applicable": na,
    "notes": "Technique family: static analysis only. Every check decides named structural clauses of its property from the current source of /repo and says which clauses it does not decide. Known findings: /verif/known_findings.json.",
}
json.dump(man, open(os.path.join(VERIF, "MANIFEST.json"), "w"), indent=1)
print("claimed:", [c["property_id"] for c in checks])
