"""What a branch decision implies, looking through boolean values that were computed earlier and stored
(`let bad = a < 2 || b < 2; if other || bad { return Err }`): facts (atom term, truth value) implied by a boolean term
having a given value. Atoms are comparisons and calls; `!`, and the phis that short-circuit `||` / `&&` build, are
decomposed. For a phi each feasible arm contributes its own facts plus the branch decisions that lead to its edge; the
result is what all feasible arms agree on."""
import mir


def _const_bool(t):
    if t[0] == "const" and isinstance(t[2], bool):
        return t[2]
    if t[0] == "const" and t[1] == "bool" and t[2] in (0, 1):
        return bool(t[2])
    return None


def _side(f, s, x):
    """truth value of the switch at the end of block s on the edge s -> x (bool switches only), or None"""
    t = f.term(s)
    if t["k"] != "switch":
        return None
    zero = [tb for v, tb in t["targets"] if v == 0]
    others = [tb for v, tb in t["targets"] if v != 0]
    if others:
        return None
    if x == t["otherwise"] and x not in zero:
        return True
    if x in zero and x != t["otherwise"]:
        return False
    return None


def edge_facts(f, p, j, depth=0):
    """branch decisions necessarily taken to arrive at block j through its predecessor p"""
    facts = set()
    reach = f.reachable()
    x, nxt = p, j
    for _ in range(24):
        sd = _side(f, x, nxt)
        if sd is not None:
            t = f.term(x)
            c = f.operand(t["discr"], f.end_point(x))
            facts |= implied(f, c, sd, depth + 1)
        ps = [q for q in f.pred[x] if q in reach]
        if len(ps) != 1:
            break
        nxt, x = x, ps[0]
    return facts


def implied(f, D, truth, depth=0):
    D = mir.strip_refs(D)
    if depth > 10:
        return set()
    if D[0] == "un" and D[1] == "Not":
        return implied(f, D[2], not truth, depth + 1)
    if D[0] == "phi" and isinstance(D[1], tuple) and isinstance(D[1][0], int):
        bb = D[1][0]
        reach = f.reachable()
        preds = [p for p in f.pred[bb] if p in reach]
        if len(preds) != len(D[2]) or any(lp.header == bb for lp in f.loops()):
            return {(D, truth)}
        alts = []
        for p, arm in zip(preds, D[2]):
            arm = mir.strip_refs(arm)
            cv = _const_bool(arm)
            if cv is not None:
                if cv != truth:
                    continue
                facts = set()
            else:
                facts = implied(f, arm, truth, depth + 1)
            facts |= edge_facts(f, p, bb, depth + 1)
            alts.append(facts)
        if not alts:
            return set()
        out = alts[0]
        for a in alts[1:]:
            out = out & a
        return out
    return {(D, truth)}


def branch_facts(f, site_bb):
    """all facts established by the switches that dominate site_bb (through the side that dominates it)"""
    out = set()
    for g in sorted(f.reachable()):
        t = f.term(g)
        if t["k"] != "switch" or g == site_bb or not f.dominates(g, site_bb):
            continue
        zero = [tb for v, tb in t["targets"] if v == 0]
        if [v for v, _ in t["targets"] if v != 0]:
            continue
        c = f.operand(t["discr"], f.end_point(g))
        for truth, succ in ((True, t["otherwise"]), (False, zero[0] if zero else None)):
            if succ is None or succ == (zero[0] if truth and zero else None):
                continue
            if f.dominates(succ, site_bb) and (succ != site_bb or sum(1 for x in f.reachable() if site_bb in f.succ[x]) == 1):
                if truth and zero and succ == zero[0]:
                    continue
                out |= implied(f, c, truth)
    return out
