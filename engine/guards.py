"""What a branch decision implies, looking through boolean values that were computed earlier and stored
(`let bad = a < 2 || b < 2; if other || bad { return Err }`): facts (atom term, truth value) implied by a boolean term
having a given value. Atoms are comparisons and calls; `!`, and the phis that short-circuit `||` / `&&` build, are
decomposed. For a phi each feasible arm contributes its own facts plus the branch decisions that lead to its edge; the
result is what all feasible arms agree on."""
import mir


def _const_bool(t):
    if t[0] == "const" and isinstance(t[2], bool):
        return t[2]
    if t[0] == "const" and t[1] == "bool" and t[2] in (0, 1):
        return bool(t[2])
    return None


def _side(f, s, x):
    """truth value of the switch at the end of block s on the edge s -> x (bool switches only), or None"""
    t = f.term(s)
    if t["k"] != "switch":
        return None
    zero = [tb for v, tb in t["targets"] if v == 0]
    others = [tb for v, tb in t["targets"] if v != 0]
    if others:
        return None
    if x == t["otherwise"] and x not in zero:
        return True
    if x in zero and x != t["otherwise"]:
        return False
    return None


def edge_facts(f, p, j, depth=0):
    """branch decisions necessarily taken to arrive at block j through its predecessor p"""
    facts = set()
    reach = f.reachable()
    x, nxt = p, j
    for _ in range(400):
        sd = _side(f, x, nxt)
        if sd is not None:
            t = f.term(x)
            c = f.operand(t["discr"], f.end_point(x))
            facts |= implied(f, c, sd, depth + 1)
        ps = [q for q in f.pred[x] if q in reach]
        if len(ps) != 1:
            break
        nxt, x = x, ps[0]
    return facts


def implied(f, D, truth, depth=0):
    D = mir.strip_refs(D)
    if depth > 10:
        return set()
    if D[0] == "un" and D[1] == "Not":
        return implied(f, D[2], not truth, depth + 1)
    if D[0] == "phi" and isinstance(D[1], tuple) and isinstance(D[1][0], int):
        bb = D[1][0]
        reach = f.reachable()
        preds = [p for p in f.pred[bb] if p in reach]
        if len(preds) != len(D[2]) or any(lp.header == bb for lp in f.loops()):
            return {(D, truth)}
        alts = []
        for p, arm in zip(preds, D[2]):
            arm = mir.strip_refs(arm)
            cv = _const_bool(arm)
            if cv is not None:
                if cv != truth:
                    continue
                facts = set()
            else:
                facts = implied(f, arm, truth, depth + 1)
            facts |= edge_facts(f, p, bb, depth + 1)
            alts.append(facts)
        if not alts:
            return set()
        out = alts[0]
        for a in alts[1:]:
            out = out & a
        return out
    return {(D, truth)}


def branch_facts(f, site_bb):
    """all facts established by the switches that dominate site_bb (through the side that dominates it)"""
    out = set()
    for g in sorted(f.reachable()):
        t = f.term(g)
        if t["k"] != "switch" or g == site_bb or not f.dominates(g, site_bb):
            continue
        zero = [tb for v, tb in t["targets"] if v == 0]
        if [v for v, _ in t["targets"] if v != 0]:
            continue
        c = f.operand(t["discr"], f.end_point(g))
        for truth, succ in ((True, t["otherwise"]), (False, zero[0] if zero else None)):
            if succ is None or succ == (zero[0] if truth and zero else None):
                continue
            if f.dominates(succ, site_bb) and (succ != site_bb or sum(1 for x in f.reachable() if site_bb in f.succ[x]) == 1):
                if truth and zero and succ == zero[0]:
                    continue
                out |= implied(f, c, truth)
    return out


def atoms(f, D, depth=0):
    """all comparison / call atoms a boolean term is built from (through `!`, stored booleans and the joins of
    short-circuit `&&` / `||`, including the tests that select the join's arms)"""
    D = mir.strip_refs(D)
    if depth > 10:
        return {D}
    if D[0] == "un" and D[1] == "Not":
        return atoms(f, D[2], depth + 1)
    if _const_bool(D) is not None:
        return set()
    if D[0] == "phi" and isinstance(D[1], tuple) and isinstance(D[1][0], int) and not any(lp.header == D[1][0] for lp in f.loops()):
        bb = D[1][0]
        reach = f.reachable()
        preds = [p for p in f.pred[bb] if p in reach]
        out = set()
        for arm in D[2]:
            out |= atoms(f, arm, depth + 1)
        for p in preds:
            x, nxt = p, bb
            for _ in range(400):
                t = f.term(x)
                if t["k"] == "switch" and _side(f, x, nxt) is not None:
                    out |= atoms(f, f.operand(t["discr"], f.end_point(x)), depth + 1)
                ps = [q for q in f.pred[x] if q in reach]
                if len(ps) != 1:
                    break
                nxt, x = x, ps[0]
        return out
    return {D}


def eval3(f, D, assign, depth=0, reach=None):
    """three-valued evaluation of a boolean term under a partial assignment {atom term: bool}; None = unknown"""
    D = mir.strip_refs(D)
    if depth > 12:
        return None
    if D in assign:
        return assign[D]
    cb = _const_bool(D)
    if cb is not None:
        return cb
    if D[0] == "un" and D[1] == "Not":
        v = eval3(f, D[2], assign, depth + 1, reach)
        return None if v is None else (not v)
    if D[0] == "bin" and D[1] in ("BitOr", "BitAnd", "BitXor", "Eq", "Ne"):
        a, b = eval3(f, D[2], assign, depth + 1, reach), eval3(f, D[3], assign, depth + 1, reach)
        if D[1] == "BitOr":
            if a is True or b is True:
                return True
            return False if (a is False and b is False) else None
        if D[1] == "BitAnd":
            if a is False or b is False:
                return False
            return True if (a is True and b is True) else None
        if a is None or b is None:
            return None
        return (a != b) if D[1] in ("BitXor", "Ne") else (a == b)
    if D[0] == "phi" and isinstance(D[1], tuple) and isinstance(D[1][0], int) and not any(lp.header == D[1][0] for lp in f.loops()):
        # a stored boolean built by short-circuit `||` / `&&`: the arms whose edge conditions are not contradicted by
        # the assignment are feasible; if all feasible arms have the same known value, that is the value
        bb = D[1][0]
        alive = f.reachable()
        preds = [p for p in f.pred[bb] if p in alive]
        if len(preds) != len(D[2]):
            return None
        vals = set()
        for p, arm in zip(preds, D[2]):
            feasible = reach is None or p in reach
            if feasible:
                for at, tv in edge_facts(f, p, bb, depth + 1):
                    ev = eval3(f, at, assign, depth + 1, reach)
                    if ev is not None and ev != tv:
                        feasible = False
                        break
            if not feasible:
                continue
            vals.add(eval3(f, arm, assign, depth + 1, reach))
        if len(vals) == 1:
            return next(iter(vals))
        return None
    return None


def reach_under(f, assign, start=0):
    """blocks reachable from the entry when every bool switch whose discriminant is decided by the partial assignment
    takes the decided side only. Blocks are visited in reverse post-order, so that a stored boolean (a join of
    short-circuit arms) is evaluated knowing which of its arms can have been taken at all."""
    order = f.rpo()
    seen = {start}
    for b in order:
        if b not in seen:
            continue
        t = f.term(b)
        if t["k"] == "switch" and not [v for v, _ in t["targets"] if v != 0]:
            v = eval3(f, f.operand(t["discr"], f.end_point(b)), assign, 0, seen)
            zero = [tb for vv, tb in t["targets"] if vv == 0]
            if v is True:
                seen.add(t["otherwise"])
                continue
            if v is False and zero:
                seen.add(zero[0])
                continue
        for s_ in f.succ[b]:
            seen.add(s_)
    return seen


def resolve(f, t, assume, depth=0):
    """specialise a value term under a partial assignment of boolean atoms: joins whose arms are selected by a decided
    branch collapse to the selected arm; projections of aggregates are folded"""
    t = mir.strip_refs(t)
    if depth > 40 or not isinstance(t, tuple):
        return t
    if t[0] == "phi" and isinstance(t[1], tuple) and isinstance(t[1][0], int):
        reach = f.reachable()
        preds = [p for p in f.pred[t[1][0]] if p in reach]
        if len(preds) == len(t[2]):
            keep = []
            for p, arm in zip(preds, t[2]):
                facts = edge_facts(f, p, t[1][0])
                if any(mir.strip_refs(a) in assume and assume[mir.strip_refs(a)] != tv for a, tv in facts):
                    continue
                keep.append(arm)
            uniq = []
            for k in keep:
                r = resolve(f, k, assume, depth + 1)
                if r == ("unreachable",):
                    continue
                if r not in uniq:
                    uniq.append(r)
            if not uniq:
                return ("unreachable",)
            if len(uniq) == 1:
                return uniq[0]
            return ("phi", t[1], tuple(uniq))
        return t
    if t[0] == "bin":
        return (t[0], t[1], resolve(f, t[2], assume, depth + 1), resolve(f, t[3], assume, depth + 1))
    if t[0] == "un":
        return (t[0], t[1], resolve(f, t[2], assume, depth + 1))
    if t[0] == "agg":
        return (t[0], t[1], tuple(resolve(f, x, assume, depth + 1) for x in t[2]))
    if t[0] == "call" and len(t) > 2:
        return (t[0], t[1], tuple(resolve(f, x, assume, depth + 1) for x in t[2])) + tuple(t[3:])
    if t[0] == "proj":
        b = resolve(f, t[1], assume, depth + 1)
        if b[0] == "agg" and isinstance(t[2], tuple) and t[2][0] in ("f", "elem") and len(t[2]) > 1 and \
                isinstance(t[2][1], int) and t[2][1] < len(b[2]):
            return b[2][t[2][1]]
        return (t[0], b, t[2])
    return t
