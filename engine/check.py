#!/usr/bin/env python3
"""Check driver: /verif/check <ID> [--tier quick|thorough] [--repo DIR] [--replay FILE] [--no-evidence]

Decides the structural clauses of property <ID> (see DESIGN.md section 3) on the *current* tree of the
repository, from facts exported by the geofacts rustc driver (MIR/HIR/const tables). Nothing of geodesy is run.
"""
import argparse
import json
import os
import sys
import time
import traceback

HERE = os.path.dirname(os.path.abspath(__file__))
VERIF = os.path.dirname(HERE)
sys.path.insert(0, HERE)

import facts as factsmod  # noqa: E402
from rulebase import RULES, Cx, Ob, PROPERTY_TEXT  # noqa: E402
import rules  # noqa: E402,F401  (registers all rule families)


def load_known():
    p = os.path.join(VERIF, "known_findings.json")
    if not os.path.exists(p):
        return []
    return json.load(open(p))["findings"]


def run_property(pid, tier, repo, write_evidence=True, only_key=None, quiet=False):
    t0 = time.time()
    seed = int(os.environ.get("VERIF_SEED", "0") or 0)
    obs = []
    counts = {}
    errors = []
    fx = None
    try:
        fx = factsmod.load(repo)
    except Exception as e:  # export failed: the tree does not build -> fail closed
        errors.append("fact export failed: %s" % e)
    rules_run = []
    if fx is not None:
        cx = Cx(fx, tier, pid)
        # coverage assertions on the fact files themselves
        nlib = len(fx.lib["fns"])
        cx.count("facts", "lib_fns", nlib)
        cx.count("facts", "kp_fns", len(fx.kp["fns"]))
        for (rname, props, fn, tiers) in RULES:
            if pid not in props:
                continue
            if tier not in tiers:
                continue
            rules_run.append(rname)
            try:
                before = len(cx.obs)
                fn(cx)
                if len(cx.obs) == before:
                    cx.ob(rname, "no-obligations", False, "rule %s produced no obligation (anchor missing)" % rname)
            except Exception as e:
                tb = traceback.format_exc()
                cx.ob(rname, "rule-crashed", False,
                      "rule %s could not analyse the current tree (anchor missing or unexpected shape): %s" % (rname, e),
                      detail=tb[-1500:])
        cx.check_floors()
        obs = cx.obs
        counts = cx.counts
    else:
        obs = [Ob(pid, "facts", "export", False, errors[0])]

    if only_key:
        obs = [o for o in obs if o.key == only_key]

    known = [k for k in load_known() if k.get("property") == pid]
    known_keys = {k["key"]: k for k in known if k.get("status") == "known"}
    violations = []
    known_hit = []
    for o in obs:
        if o.ok:
            continue
        if o.key in known_keys:
            known_hit.append((o, known_keys[o.key]))
        else:
            violations.append(o)

    out_lines = []
    for o, k in known_hit:
        out_lines.append("KNOWN-FINDING: property=%s %s [%s]" % (pid, k.get("what", o.what), o.key))
    replay_dir = os.path.join(VERIF, "evidence", "replay")
    for n, o in enumerate(violations):
        os.makedirs(replay_dir, exist_ok=True)
        rp = os.path.join(replay_dir, "%s-%d.json" % (pid, n))
        json.dump({"property": pid, "key": o.key, "rule": o.rule, "what": o.what, "where": o.where,
                   "detail": o.detail, "repo": os.path.abspath(repo)}, open(rp, "w"), indent=1)
        out_lines.append("VIOLATION property=%s replay=%s" % (pid, rp))
        out_lines.append("  rule=%s key=%s" % (o.rule, o.key))
        out_lines.append("  at %s: %s" % (o.where or "?", o.what))
    wall = time.time() - t0

    if write_evidence and not only_key:
        write_ev(pid, tier, seed, obs, counts, violations, known_hit, rules_run, wall, fx)

    if not quiet:
        print("property %s tier=%s: %d obligations, %d discharged, %d known findings, %d violations (%.1fs)" % (
            pid, tier, len(obs), sum(1 for o in obs if o.ok), len(known_hit), len(violations), wall))
        for l in out_lines:
            print(l)
    return violations, known_hit, obs


def write_ev(pid, tier, seed, obs, counts, violations, known_hit, rules_run, wall, fx):
    os.makedirs(os.path.join(VERIF, "evidence"), exist_ok=True)
    by_rule = {}
    for o in obs:
        r = by_rule.setdefault(o.rule, {"obligations": 0, "discharged": 0, "nontrivial": 0})
        r["obligations"] += 1
        r["discharged"] += 1 if o.ok else 0
        r["nontrivial"] += 1 if o.nontrivial else 0
    distinct = len({o.key for o in obs if o.nontrivial})
    samples = []
    seen_rules = {}
    for o in obs:
        if seen_rules.get(o.rule, 0) < 3:
            seen_rules[o.rule] = seen_rules.get(o.rule, 0) + 1
            samples.append({"key": o.key, "verdict": "holds" if o.ok else "fails", "what": o.what, "where": o.where})
    text = PROPERTY_TEXT.get(pid, {})
    ev = {
        "property_id": pid,
        "tier": tier,
        "seed": seed,
        "level": "other",
        "coverage": {
            "explanation": text.get("explanation", ""),
            "decides": text.get("decides", []),
            "does_not_decide": text.get("not_decided", []),
            "obligations": len(obs),
            "discharged": sum(1 for o in obs if o.ok),
            "evaluations": len(obs),
            "distinct_nontrivial": distinct,
            "rule": "one obligation per rule instance (a function, loop, call site, table row or series identity found "
                    "through the program's own registries); non-trivial = the instance exists in the analysed tree and "
                    "its verdict required inspecting code or data (not a bare count); distinct by key",
            "samples": samples,
            "per_rule": by_rule,
            "rules_run": rules_run,
            "measured_counts": counts,
            "checker_cmd": "./check %s --tier %s" % (pid, tier),
            "trusted_base": [
                "rustc nightly HIR/MIR and callee resolution as exported by engine/geofacts",
                "MIR at -Zmir-opt-level=0 of the dev profile is the program analysed",
                "spec tables under /verif/spec transcribe the documentation",
                "user supplied CoordinateSet / Context / Grid implementations are outside the crate and assumed faithful",
            ],
            "facts_hash": (fx.meta.get("hash") if fx is not None else None),
            "known_findings_hit": [o.key for o, _ in known_hit],
            "exhaustive": False,
        },
        "assumptions": text.get("assumptions", []),
        "wall_s": round(wall, 2),
        "violations": len(violations),
    }
    p = os.path.join(VERIF, "evidence", "%s.json" % pid)
    tmp = p + ".tmp%d" % os.getpid()
    json.dump(ev, open(tmp, "w"), indent=1)
    os.replace(tmp, p)


def main():
    ap = argparse.ArgumentParser()
    ap.add_argument("pid")
    ap.add_argument("--tier", default=os.environ.get("VERIF_TIER", "quick"))
    ap.add_argument("--repo", default="/repo")
    ap.add_argument("--replay", default=None)
    ap.add_argument("--no-evidence", action="store_true")
    a = ap.parse_args()
    tier = a.tier if a.tier in ("quick", "thorough") else "quick"
    only = None
    if a.replay:
        only = json.load(open(a.replay))["key"]
    viol, known, obs = run_property(a.pid, tier, a.repo, write_evidence=not a.no_evidence, only_key=only)
    if tier == "thorough" and not only:
        import selftest_run
        t1 = time.time()
        rc = selftest_run.run(a.pid, repo=a.repo)
        st_wall = time.time() - t1
        # record the self-test in the evidence of this (thorough) run
        evp = os.path.join(VERIF, "evidence", "%s.json" % a.pid)
        if os.path.exists(evp) and not a.no_evidence:
            ev = json.load(open(evp))
            st = getattr(selftest_run.run, "last_summary", None) or {}
            ev["coverage"]["selftest"] = st
            ev["coverage"]["explanation"] += (
                " Thorough tier: checker self-test on %d one-edit mutants of /repo (own corpus + seeded changes written by "
                "independent sub-agents), each applied to a scratch copy and required to be reported by the named rule: "
                "%d caught, %d stale, %d missed." % (st.get("mutants", 0), st.get("caught", 0), st.get("stale", 0), st.get("missed", 0)))
            ev["wall_s"] = round(ev.get("wall_s", 0) + st_wall, 2)
            if rc != 0:
                ev["violations"] = ev.get("violations", 0) + 1
            json.dump(ev, open(evp, "w"), indent=1)
        if rc != 0:
            sys.exit(1)
    sys.exit(1 if viol else 0)


if __name__ == "__main__":
    main()
