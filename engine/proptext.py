"""Per-property wording: what each check decides and what it does not (used for MANIFEST.json and evidence)."""

COMMON_ASSUME = [
    "rustc nightly HIR/MIR and callee resolution as exported by engine/geofacts are the program",
    "only default-feature, non-test code of crate geodesy (lib) and bin kp is analysed",
    "std behaves as documented (f64 arithmetic never panics, `as` casts saturate, BTreeMap iterates in key order)",
    "spec tables under /verif/spec transcribe the cited documentation",
]

P = {}

P["C01"] = dict(
    claimed=True,
    technique="static analysis: exact rational series-reversion identities over the HIR constant tables; MIR "
              "dataflow rules on the registered fwd/inv pairs and the direction dispatch",
    decides=["R-AZIMUTH-ATAN2/quotient-atan: no angle of the geodesic solutions is the one-argument arctangent of a quotient",
             "R-LON0-EVERY-WRITE: every value written by the inverse (forward) function of a projection declaring lon_0 has a longitude (position) that depends on lon_0, special-cased aspects included",
             "R-CLONE-AGREE (switches): like-named boolean switches of a forward and an inverse function are built from the same tests",
             "R-K0-LINEAR: for merc, lcc, btmerc, butm the forward easting / northing are exactly offset + k_0 * G (G free of k_0, offset exactly x_0 / y_0), and in the inverse every arithmetic expression of the input depends on it only through (input - offset) / k_0 (exact rational-function identities)",
             "R-INV-DECLARED: `<operator> inv` reaches handle_op_inversion for every invertible built-in",
             
        "T-SERIES: for every PolynomialCoefficients table, inv is the exact series reversion of fwd to n^6 (both orders)",
        "R-DISPATCH: Op::apply maps (inverted, direction) to the fwd/inv slot by the documented truth table; "
        "handle_inversion toggles iff requested and invertible, else Err",
        "R-GATHER-SCATTER: the inverse of adapt/axisswap is the exact reverse element mapping of the forward",
        "R-ITER-DEAD: no fixed-point / Newton iteration of an inverse stops before its first update",
        "R-HELMERT-ALGEBRA: helmert inverse(forward(x)) = x as a polynomial identity (given R^T R = I)",
        "R-PAIRING: every invertible operator registers distinct fwd/inv functions; one-way operators register none",
        "R-CLONE-AGREE: constants recomputed by both the forward and the inverse function are the same expression",
        "R-GRID-SIGN: grid corrections are applied with opposite signs forward and inverse",
        "R-SIGN-SLICE: every laea aspect (north/south polar) is reachable",
        "R-PARAM-MIRROR: (program slice) the values written by the forward and by the inverse function of every "
        "invertible operator depend on the same set of parameters",
             "R-ARG-SELECTION: at every call of a crate function no argument is a caller variable named like another same-typed parameter of the callee (exchanged arguments of equal type, e.g. qs(e, sinphi), chase(&locals, globals, key))",
             "R-STACK-DUAL: the inverse of every stack sub-command is the documented dual (roll <-> unroll with m-n, push <-> pop with reversed arguments, swap/flip self-dual)",
             "R-PARITY: (parity abstract interpretation) under reflection in the equator the cart operator's inverse and Ellipsoid::geographic give longitude and height even and latitude odd in Z on every branch; Ellipsoid::cartesian gives X, Y even and Z odd in the latitude; the auxiliary latitudes are odd, the radii of curvature and the normal gravity formulas even in the latitude",
             "R-LAT-ARG-KIND: what the operators hand to an auxiliary-latitude conversion is an angle (a coordinate, a parameter, the result of an inverse trigonometric function, or a sum / scalar multiple of such), never a bare ratio such as the sine of the authalic latitude",
             "R-MODE-FLAG-USED: every mode or aspect flag a constructor itself records (laea north_polar/south_polar/oblique, helmert rotated/dynamic/fixed_time, null_grid ...) is consulted by the operator: a detected mode is a handled mode",
             "R-RECTIFY-ROTATION: omerc forward and inverse use a rotation and its reverse between skew and rectified coordinates",
             "R-NO-LAT-SHIFT: in the transverse Mercator family lat_0 is never added to a latitude read or written (it enters through the meridian arc as the origin of the northings)"],
    not_decided=["numerical round-trip accuracy of any operator", "domain limits", "grid based shifts"],
    level="Decides structural clauses that are necessary conditions of 'inverse undoes forward' (see decides); does "
          "not decide the numerical round-trip accuracy of any operator.",
    design_ref="DESIGN.md section 3, C01",
)
P["C05"] = dict(
    claimed=True,
    technique="static analysis: exact rational identities between the Krueger, rectifying and conformal series tables",
    decides=["R-MERC-K0-GUARDED: merc replaces k_0 only under a test of lat_ts whose other side still builds the operator",
             "R-OMERC-LABORDE: every per-tuple decision on `variant` also looks at whether gamma_c is missing",
             "R-LAT2-SENTINEL: lcc decides on lat_2 alone only by is_nan (every latitude, 0 included, is a legitimate second parallel)",
             "T-OMERC-UC/hemisphere: wherever uc enters a written coordinate it carries SIGN(latc) (factor signum(latc) or copysign(uc, latc))",
             "T-OMERC-UC: omerc computes the centre's u coordinate with the one-argument arctangent of (D^2-1)^1/2 / cos(alpha), as published (no atan2 with the cosine of the azimuth as second argument)",
             "R-NO-INPUT-CLAMP: no clamp / min / max is applied to an input coordinate element in the per-tuple loops of the plane projections",
             "R-K0-LINEAR (stored constants): every constant a projection's constructor derives from k_0 and stores is proportional to k_0 (or a false origin plus such a term)",
             "R-BRANCH-AGREE: the alternative formulas of `ts` (and of any ancillary function taking a (sin, cos) pair) are equal as rational functions modulo sin^2 + cos^2 = 1",
             "R-PARALLELS-SYMMETRIC: every branch condition of lcc::new on an arithmetic combination of both standard parallels is symmetric in them, and lat_0 defaults to lat_1 on the strength of |lat_1 - lat_2| < eps",
             "R-KEY-DECLARED: every key (and indexed accessor, e.g. ellps(1)) an operator or its constructor reads is declared by its gamut or stored by the constructor - the user's ellipsoid reaches the projection",
             "R-LATTS-K0 (even): a southern lat_ts is not ignored",
             "R-K0-LINEAR: for merc, lcc, btmerc, butm the forward easting / northing are exactly offset + k_0 * G (G free of k_0, offset exactly x_0 / y_0), and in the inverse every arithmetic expression of the input depends on it only through (input - offset) / k_0 (exact rational-function identities)",
             "T-SERIES-CROSS: TM.fwd = RECT.fwd o CONF.inv and TM.inv = CONF.fwd o RECT.inv exactly to n^6 "
             "(northing on the central meridian is the scaled meridian arc)",
             "R-SIGN-SLICE: laea's polar aspect selection depends on the sign of lat_0 (all aspects reachable)",
             "R-DIMENSION: (units-of-measure inference) every addition, subtraction and comparison in the ellipsoid geometry and in the operators with documented tuple conventions joins quantities of one physical dimension, transcendental functions get dimensionless arguments, and written tuple elements have the documented dimension (length / angle / time)",
             "R-ARG-SELECTION: at every call of a crate function no argument is a caller variable named like another same-typed parameter of the callee (exchanged arguments of equal type, e.g. qs(e, sinphi), chase(&locals, globals, key))",
             "R-PARAM-MIRROR: forward and inverse of each projection depend on the same parameters (same ellipsoid in both directions)",
             "R-LAT-ARG-KIND: what the operators hand to an auxiliary-latitude conversion is an angle (a coordinate, a parameter, the result of an inverse trigonometric function, or a sum / scalar multiple of such), never a bare ratio such as the sine of the authalic latitude",
             "R-MODE-FLAG-USED: every mode or aspect flag a constructor itself records (laea north_polar/south_polar/oblique, helmert rotated/dynamic/fixed_time, null_grid ...) is consulted by the operator: a detected mode is a handled mode",
             "R-RECTIFY-ROTATION: the step between skew (u, v) and rectified coordinates of omerc is a rotation through gamma_c in both directions (orthogonal rows of equal length as polynomials in sin/cos gamma_c)",
             "R-LATTS-K0: the k_0 that merc derives from lat_ts replaces a given k_0 (depends on lat_ts and the ellipsoid only)",
             "R-DEFAULTED-FIELD: no struct completed with ..Default::default() leaves a field to the default for which the building function has a like-named parameter (Jacobian keeps the caller's ellipsoid)"],
    not_decided=["conformality, equal-area and true-scale identities (differential statements over R^2)"],
    level="Decides two necessary table identities of the transverse Mercator geometry; the differential geometry "
          "of the projections is not decidable statically and is not claimed.",
    design_ref="DESIGN.md section 3, C05",
)
P["C06"] = dict(
    claimed=True,
    technique="static analysis: exact checks of the ellipsoid table (f64 grammar, uniqueness, golden a and 1/f), "
              "series reversion identities, meridian-arc coefficients = binom(1/2,k)^2",
    decides=["R-ELLPS-FROM-PARAMS: no operator module builds its ellipsoid from Ellipsoid::default() or a literal name",
             "R-AZIMUTH-ATAN2/quotient-atan: no angle of the geodesic solutions is the one-argument arctangent of a quotient",
             "R-CURVATURE-RADIANS: the combined radii are computed from radii at one and the same latitude",
             "R-BRANCH-AGREE: numerically motivated alternative branches of the ancillary functions compute the same function",
             "R-AZIMUTH-ATAN2: the azimuths returned by geodesic_fwd / geodesic_inv are two-argument arctangents",
             "R-COINCIDENCE-BOTH: geodesic_inv's coincidence short-cut looks at both coordinate differences",
             "R-POLAR-HEIGHT: on the polar axis the height is |Z| - b",
             "R-RF-ZERO-CONVENTION: both ellipsoid constructors divide by a table rf only where rf != 0 is known",
             "R-TABLE-LOOKUP-EXACT: Ellipsoid::named and TriaxialEllipsoid::named look names up by equality",
             "R-CURVATURE-MEANS: combined radii of curvature satisfy their defining identities in the two principal radii",
             "T-ELLPS: every row parses, is unique, equals the published a and 1/f; gamut defaults name rows",
             "T-SERIES: auxiliary-latitude series pairs are exact reversions to n^6",
             "T-MERIDIAN: MERIDIAN_ARC_COEFFICIENTS[k] = binom(1/2,k)^2",
             "R-DIMENSION: (units-of-measure inference) every addition, subtraction and comparison in the ellipsoid geometry and in the operators with documented tuple conventions joins quantities of one physical dimension, transcendental functions get dimensionless arguments, and written tuple elements have the documented dimension (length / angle / time)",
             "R-UNIT-DIVISOR: no division by 1 - x*x with x a product of sines and cosines (|x| = 1 attained, e.g. on the equator) without a test of the divisor",
             "R-ITER-CAP-AGREE: the geodesic operator tests the iteration count returned by geodesic_inv against a threshold below geodesic_inv's iteration cap (non-convergence is detectable)",
             "R-ARG-SELECTION: at every call of a crate function no argument is a caller variable named like another same-typed parameter of the callee (exchanged arguments of equal type, e.g. qs(e, sinphi), chase(&locals, globals, key))",
             "R-PARAM-MIRROR: the latitude operator uses the same ellipsoid forward and inverse",
             "R-LAT-SHAPE: every auxiliary latitude conversion has a shape that is odd and fixes the equator and the poles by construction: phi + S(2 phi) with a sine series in even multiples and the coefficient set of its direction (forward/inverse), atan(c tan phi) / atan2(tan phi, c), or the isometric pair (odd)",
             "R-PARITY: (parity abstract interpretation) under reflection in the equator the cart operator's inverse and Ellipsoid::geographic give longitude and height even and latitude odd in Z on every branch; Ellipsoid::cartesian gives X, Y even and Z odd in the latitude; the auxiliary latitudes are odd, the radii of curvature and the normal gravity formulas even in the latitude",
             "R-ELLPS-IDENTITIES: the derived shape parameters (b, second and third flattening, aspect ratio, e^2, e, e'^2, e', polar radius of curvature) equal their defining identities as exact rational functions of a and f (cross-multiplied polynomial comparison; squares compared for the square roots)",
             "R-TUPLE-LOOP-COMPLETE: the per-tuple loops of the cart operator visit every tuple"],
    not_decided=["cartesian/geographic accuracy", "geodesic consistency", "closed-form agreement of series",
                 "identities among derived shape parameters"],
    level="Decides the table/series clauses of ellipsoid coherence exactly; numerical clauses are not claimed.",
    design_ref="DESIGN.md section 3, C06",
)
P["C11"] = dict(
    claimed=True,
    technique="static analysis: exact checks of the unit and adaptor tables from HIR constants",
    decides=["R-ARRAY-COPY-ORDER: the arrays adapt unpacks from its post / mult series compute position k from element k",
             "R-INDEX-VALIDATION (axisswap/length): at most 4 indices are accepted",
             "R-COMBINE-ROLES: combine_descriptors searches from.post for elements of to.post (give = from^-1 o to)",
             "R-NOOP-EXACT: adapt's noop value compares the multipliers exactly (no abs, tolerance or ordered comparison, also inside predicate closures)",
             "R-AXISSWAP-SHORTCUT: axisswap by-passes its loop only on the absence of `order`, never on its length or content",
             "R-UNITCONVERT-WIRING (no partial by-pass): no return by-passes the per-tuple loop on the strength of one of the two factors alone",
             "T-DESIGNATORS: e n u f w s d p map to +1 +2 +3 +4 -1 -2 -3 -4",
             "R-GUARD-MATCH-AGREE: adapt's designator guard accepts exactly the characters the designator match has arms for, and tests the value that is matched",
             "R-DEDUP-SORTED: adapt / axisswap / unitconvert de-duplicate no vector (Vec::dedup*) without a dominating sort of the same vector (duplicate-axis detection sees non-adjacent duplicates)",
             "T-UNITS: unit names unique over linear++angular (first-hit lookup), multiplier = own factor string = "
             "published factor", "T-ADAPTORS: the 8 documented adaptor macros, registered by both contexts",
             "R-GATHER-SCATTER: adapt and axisswap forward gather out[k]=in[perm[k]]*m[k]; the inverse is the scatter "
             "out[perm[k]]=in[k]*m'[k] with the multiplier at the same index",
             "R-INDEX-SPACE: combine_descriptors indexes the source descriptor's multipliers by source positions",
             "R-UNITCONVERT-WIRING: fwd multiplies / inv divides elements 0,1 by xy_in*1/xy_out and element 2 by "
             "z_in*1/z_out; the constructor stores the factor of the right unit name under each key",
             "R-INDEX-VALIDATION: list parameters that become array indices are validated as such: axisswap bounds the magnitude of each axis number and tests integrality and zero; stack push/pop/flip indices must be members of a literal list of integral values within 1..4",
             "R-TABLE-SCAN: no index loop over a constant unit table stops short of its end"],
    not_decided=["acceptance/rejection of descriptor words", "axisswap validation"],
    level="Decides the table clauses (every unit name resolves to its own factor; adaptor macros as documented).",
    design_ref="DESIGN.md section 3, C11",
)

P["C02"] = dict(
    claimed=True,
    technique="static analysis: MIR value-graph dataflow over every per-tuple loop (loop-carried state, memo idiom, "
              "count additivity)",
    decides=["R-COUNT-OR-NAN/never-reset: a count that one path of a per-tuple loop advances is not set to a constant on another",
             "R-NO-PEEK: operator code reads no tuple at a constant index",
             "R-ADAPTER-FIXED: no &mut method of the (T, f64) / (T, f64, f64) adapters assigns to the adapter's fixed height / epoch",
             "R-LOOP-CARRIED (memo soundness): a value cached between tuples under a key is computed from the tuple through that key alone",
             
        "R-LOOP-CARRIED: in every per-tuple loop of every function reachable from a registered InnerOp, the values "
        "written for tuple i and all branch conditions depend only on loop invariants and tuple i (or satisfy the "
        "memo idiom key!=memo; memo:=key; initial NaN)",
        "R-COUNT-OR-NAN/additive: each iteration adds at most one to the success count",
        "T-CONTAINER-DEFAULTS: the same tuple presented through any supported container yields the stored dimensions, "
        "height 0 / epoch NaN or the adapter's fixed values",
        "R-STACK-LOCAL: the pipeline stack is a fresh local per application",
             "R-TUPLE-LOOP-COMPLETE: a per-tuple loop is left only when its iterator is exhausted (no break/return in the body) and writes only the current tuple (no set-wide stomp in the body)",
             "R-PIPE-ORDER: the pipeline runs every step whatever the other tuples of the set did (no early exit)",
             "R-DEFAULT-RMW: the default bulk setters of CoordinateSet hand the elements they do not set back as read",
             "R-LOOP-CARRIED (extended): a counter or budget that is initialised before the per-tuple loop and consumed by an inner loop is state carried between tuples"],
    not_decided=["agreement of specialised container accessors with the trait defaults",
                 "bit-identity across containers (follows from determinism, not checked)"],
    level="Decides purity of the per-tuple computation (a necessary and, with immutability of Op, sufficient "
          "structural condition for independence of neighbours, order and chunking); container equivalence is not decided.",
    design_ref="DESIGN.md section 3, C02",
)
P["C07"] = dict(
    claimed=True,
    technique="static analysis: loop-carried-state and element-preservation dataflow on the Helmert/Molodensky loops",
    decides=["R-PPM-ONCE: s / scale and ds / scale_trend reach the stored S / DS through exactly one factor 1e-6",
             "R-FIXED-TIME: fixed_time is set without comparing t_obs with t_epoch",
             "R-MOLO-NO-PARTIAL-BYPASS: molodensky by-passes its loop only on tests that look at all of dx, dy, dz, da, df (or on a missing parameter)",
             "T-MOLODENSKY: with da = df = 0 the full and the abridged Molodensky corrections are the exact linearisation of the cartesian shift (six rational-function identities in dx, dy, dz, N, M, h and the sines / cosines)",
             "R-ROT-SMALL-ANGLE: with exact = false the matrix of rotation_matrix satisfies M(-r) = M(r) transposed as a polynomial identity (both conventions)",
             "R-MOLO-BOTH-ELLPS: molodensky stores the da / df derived from the two ellipsoids only where both ellps_0 and ellps_1 are known to have been given",
             "R-FLAG-COVERS: the decisions to set helmert's `dynamic` and `rotated` flags mention every stored quantity the apply function uses under that flag (DT, DR, DS; R, DR)",
             "R-LOOP-CARRIED on helmert_common: parameters are evaluated at each tuple's own epoch",
             "R-ELEMENT-PRESERVE: helmert and molodensky never change the fourth coordinate",
             "R-ONCE: fixing t_obs advances T, R (per axis) and S (once) by their rates exactly once",
             "R-TRANSPOSE: the position_vector and coordinate_frame matrices are element-wise transposes",
             "R-HELMERT-ALGEBRA: helmert_common's forward branch is T + S*R*x (T + S*x when unrotated) and its inverse "
             "branch composed with it is the identity, as polynomial identities modulo R^T R = I; the fourth element is copied",
             "R-ROT-ORTHOGONAL: in exact mode R*R^T = I and det R = +1 hold as polynomial identities in the sines and "
             "cosines of the three angles (normal forms modulo s^2+c^2=1), for both conventions",
             "R-ALIAS-WIRING: element i of T/DT/R/DR comes from the i'th scalar alias or the i'th list element; "
             "S, DS from (scale|s), (scale_trend|ds)",
             "R-DIMENSION: (units-of-measure inference) every addition, subtraction and comparison in the ellipsoid geometry and in the operators with documented tuple conventions joins quantities of one physical dimension, transcendental functions get dimensionless arguments, and written tuple elements have the documented dimension (length / angle / time)",
             "R-ELLPS-SHADOW: molodensky gives a supplied ellps_0 precedence over the defaulted ellps (which ParsedParameters::ellps(0) would otherwise prefer), so the source ellipsoid is the one asked for",
             "R-RATE-PAIRING: the stored T, R, S depend only on their own aliases and their own rates (fold to t_obs); per tuple each parameter is advanced by dt times its own rate, and the scale is refreshed under the same conditions as the translation",
             "R-ALIAS-GUARD: the test selecting a scalar alias (x, y, z, rx ... ds) reads the very key whose value is then taken",
             "R-ELLPS-SHADOW/order: molodensky asks for ellps(0) only after a supplied ellps_0 has been given precedence"],
    not_decided=["molodensky accuracy", "second-order inverse accuracy in small-angle mode",
                 "conversion constants (arc-seconds, ppm) beyond their wiring"],
    level="Decides the epoch-independence and untouched-time clauses; the algebraic clauses are not decided.",
    design_ref="DESIGN.md section 3, C07",
)
P["C08"] = dict(
    claimed=True,
    technique="static analysis: per-iteration typestate (written x counted) on the grid operators' loops",
    decides=["R-GRID-MIN-SIZE: BaseGrid::plain refuses only grids with fewer than two rows / columns",
             "R-HEADER-ORDER-AGREES: SubGridHeader::into_header writes the fields in the positions BaseGrid::plain reads them from (compared by field name)",
             "R-BAND-ORDER: for m-band Gravsoft grids the positions exchanged are the first two bands of each node (lower position a multiple of m)",
             "R-GRAVSOFT-ANGULAR: every boundary with |h| <= 360 counts as an angle",
             "R-HEADER-PRECISION: Gravsoft numbers are parsed as f64",
             "R-TWO-PASS also reads the find_map form of the search over the grid list",
             "R-SUBGRID-STRICT: the walk down the NTv2 sub-grid tree tests strict containment; the caller's margin is used for the base grids' outer rim only",
             "R-MARGIN-PASSED: Ntv2Grid::at passes the caller's margin on to both the sub-grid search and the interpolation",
             "R-GRID-MISS-IS-NAN: no result of grids_at is given a default (unwrap_or ...) in the grid operators",
             "R-NULL-ENDS-LIST: the branch that records the null grid leaves the grid-list loop (grids after `null` are ignored)",
             "R-GRID-INVARIANT reads guards merged into disjunctions and stored booleans (guards.py)",
             "R-NULL-AFTER-STRIP: gridshift, deformation and deflection compare the grid name with `null` after removing the `@` prefix",
             "R-GRIDS-INDEX-GUARD: the first grid of the list is consulted only when the list is non-empty",
             "R-COUNT-OR-NAN on gridshift/deformation/deflection: a point that gets no grid value is overwritten "
             "with NaN and not counted; every other path writes and counts",
             "R-TWO-PASS: all three grid searches (grids_at, deformation fwd/inv) try margin 0 then 0.5 in the outer "
             "loop and the grids in list order in the inner loop; the first hit ends the search",
             "R-GRID-SIGN: gridshift subtracts geoid heights / adds datum shifts forward and does the opposite inverse; "
             "deformation integrates the negated velocity forward, the velocity inverse, over the same position and duration",
             "R-CONTAINS-AXES: the containment margin of each axis is computed from that axis' own cell size",
             "R-MULTIMAP: the NTv2 parent->children table is only ever extended",
             "R-GRID-INVARIANT: grids have at least 2 rows and 2 columns",
             "R-SUBGRID-KEPT: no NTv2 sub-grid record is dropped because of its position in the file (the deepest sub-grid can only be found if it was kept)",
             "R-FULL-RANGE: the unit/band conversion loops of normalize_gravsoft_grid_values cover 0..grid.len()",
             "R-ARG-SELECTION: at every call of a crate function no argument is a caller variable named like another same-typed parameter of the callee (exchanged arguments of equal type, e.g. qs(e, sinphi), chase(&locals, globals, key))",
             "R-NULL-LAST: in grids_at the null grid answers only after the strict and the margin pass over all grids have failed",
             "R-NTV2-FIELDS: grid geometry (increments, bounds) of NTv2 sub-grids comes from the records documented for it",
             "R-BILINEAR: BaseGrid::at is decided to be the bilinear interpolation of the four corner nodes of the cell: two latitude interpolations (1-r)*lower + r*upper with one weight over rows `row`/`row-1` (index difference -bands*cols, as polynomials) of the columns `col`/`col+1`, joined in longitude with weight r_lon; the weights are the cell-unit offsets from the lower-left node built from the clamped row/col that index the nodes; row is clamped to [1, rows-1], col to [0, cols-2]",
             "R-SIBLING-SEARCH: the walk over NTv2 sub-grids ends early only after recording the grid found, and descends into children only after recording their parent",
             "R-KEY-DECLARED: the null-grid flag is read under the key the constructor stores it under"],
    not_decided=["bilinearity, continuity, NTv2 sub-grid selection values", "unit conventions"],
    level="Decides the 'outside all grids is failed' clause as a path property; interpolation numerics are not decided.",
    design_ref="DESIGN.md section 3, C08",
)
P["C10"] = dict(
    claimed=True,
    technique="static analysis: set-of-states typestate dataflow per loop iteration (written none/value/NaN x "
              "counted 0/1/2+), and element-wise value-graph comparison of written tuples with the tuple read",
    decides=["R-NONCONVERGENCE-FIRST: every value the geodesic operator writes is dominated by the converged side of the `[3] > 990` test",
             "R-COUNT-SPATIAL: the NaN test guarding the success count of cart_fwd / cart_inv looks at the three spatial results only (the time element is passed through and does not decide)",
             "R-STACK-COUNT: stack_fwd / stack_inv never return the depth of the stack as the number of successes",
             "R-NO-INPUT-CLAMP: no clamp / min / max is applied to an input coordinate element in the per-tuple loops of the plane projections",
             "R-GRID-MISS-IS-NAN: no result of grids_at is given a default (unwrap_or ...) in the grid operators",
             "R-LIMIT-ON-PLANE: the transverse Mercator strip limit is tested, forward, on the value that is scaled into the written easting and, inverse, on an arithmetic function of the input",
             "R-STOMP-ALL: a whole-set failure leaves no finite element behind",
             "R-COUNT-OR-NAN: on every path through one iteration of every per-tuple loop the tuple is (written or "
             "passed) and counted once, or overwritten with NaN and not counted",
             "R-EARLY-RETURN: every 'parameter missing => return 0' exit of an InnerOp is dead (key guaranteed)",
             "R-SIBLING-GUARD: a domain limit guarded forward and inverse is tested on |x| in both or in neither",
             "R-PIPE-MIN / R-UNDERFLOW-GUARD: a pipeline reports the minimum over its steps; stack underflow stomps and reports 0",
             "R-DISPATCH-EXHAUSTIVE: every stored dispatch literal has an arm (no live default arm returning 0)",
             "R-ELEMENT-PRESERVE: for plane / 3D / single-element operators every written tuple keeps the elements "
             "the operator does not work on as copies of the same element of the tuple read",
             "R-TUPLE-LOOP-COMPLETE: per-tuple loops visit every tuple (no break/return in the body), so no tuple is left untransformed, uncounted and looking valid",
             "R-ITER-CAP-AGREE: the non-convergence test of the geodesic operator can fire: threshold < iteration cap of geodesic_inv, applied to the count as returned",
             "R-PLACEHOLDER: the stand-in for a missing inverse (InnerOp::default) writes nothing and returns the constant 0",
             "R-LOOP-CARRIED: no state survives from one tuple to the next (the helmert epoch memo starts at NaN and is refreshed whenever the epoch differs - a NaN epoch never reuses parameters)",
             "R-NAN-TRANSPARENT: no f64::min / f64::max (which swallow NaN) inside a per-tuple loop",
             "R-KEY-DECLARED: every flag an operator reads is one its constructor declares or stores (a misspelt key makes a case fail visibly or silently)"],
    not_decided=["NaN propagation through arithmetic", "which inputs are inside the domain"],
    level="Decides the counting/NaN discipline and untouched-axes clauses as all-paths properties of the operator "
          "loops; numerical domain questions are not decided.",
    design_ref="DESIGN.md section 3, C10",
)

P["C04"] = dict(
    claimed=True,
    technique="static analysis: call-graph cycle analysis with explicit fn-pointer edges, dominance of the depth "
              "guard, provenance of re-entering calls, ranking functions for every loop of the resolution code",
    decides=["R-CHASE-CALLS/not-gated-by-locals: no look-up in ParsedParameters::new is made only when the step's own text mentions the key",
             "R-FORWARD-SELF/name-before-default: the self-reference test compares the name in front of an optional (default)",
             "R-CHASE-CALLS/error-propagated: the Err of every chase(..) in ParsedParameters::new reaches a `?`",
             "R-PIPELINE-FAIL-FAST: from the failure side of Op::op in pipeline::new no path leads back into the loop over the steps",
             "R-DEFAULT-LATEST: in chase a default met later in the chase (given further out) replaces the earlier one - no write of the default is guarded by the default so far or by the look-up flag",
             "R-FORWARD-SELF/known-only: a self-forwarded argument is dropped only when the caller has a value for it",
             "R-REC-GUARD (limit-room): the nesting limit is at least 50 macro expansions at the level cost of one expansion",
             "R-PIPELINE-NO-NAME: operator_name answers the empty string for pipelines before it looks at the parameters",
             "R-CHASE-MISSING: chase answers `not given` only where the flag that a $name look-up is in progress is known to be false",
             "R-NEST-UNIT: the nesting counter of RawParameters::next advances only where a macro is expanded (known finding on the current tree: it advances for every frame, so nesting deeper than 48 / 19 levels is refused)",
             "R-FORWARD-SELF: the arguments of a macro invocation pass a filter on `$` self-references before they are merged into the caller's values",
             "R-CHASE-NEEDLE: where chase takes the next needle off a `$name(default)` list, the list holds exactly the name on every path",
             "R-CHASE-VISITED: chase's search predicate questions the whole growing collection of followed entries",
             "R-REC-GUARD: every call cycle of the instantiation code passes through Op::op; nesting_too_deep() "
             "dominates every re-entering call; re-entering callers pass RawParameters::next(..) frames; next() "
             "increases the level by >= 1 on every path; the limit is a constant => nesting depth is bounded for "
             "every resource graph, cycles of any length included",
             "R-LOOP-RANK: every loop of op::*, token::*, context::* has a ranking function (finite iterator "
             "advanced on every pass / monotone counter / unrefilled queue)",
             "R-MACRO-ARGS: the body frame is built from the invocation text and arguments overwrite inherited values",
             "R-CHASE-ORDER: chase searches locals before globals", "R-INV-SOURCE: inverted invocations are detected "
             "from the parameter map", "R-LOOKUP-FRESH: a search with a changing key runs on a fresh iterator "
             "(fails today: known finding)",
             "R-CHASE-CALLS: every typed extraction calls chase(globals, &locals, key) with the maps in this order",
             "R-ARG-SELECTION: at every call of a crate function no argument is a caller variable named like another same-typed parameter of the callee (exchanged arguments of equal type, e.g. qs(e, sinphi), chase(&locals, globals, key))",
             "R-OMIT-SCOPE: the steps of a pipeline are built from globals from which the invocation's omit_fwd/omit_inv have been removed (a macro step with `inv omit_*` is the inverse of its expansion)",
             "R-INV-SCOPE: the invocation's inv is removed from the globals handed to the macro body"],
    not_decided=["that $name, $name(d), (d) forms evaluate to the documented values", "precedence of values",
                 "equivalence of an invocation with its textual expansion", "stack frame sizes (101 levels assumed to fit)"],
    level="Decides termination of macro resolution (bounded recursion, terminating loops) as a structural proof "
          "obligation set; the meaning of an expansion is not decided.",
    design_ref="DESIGN.md section 3, C04",
)
P["C09"] = dict(
    claimed=True,
    technique="static analysis: key-availability dataflow between constructors and parameter-table readers, "
              "validation-before-unwrap, ranking functions for all loops, recursion guard, ellipsoid table grammar",
    decides=["R-NO-MAP-INDEX: the tokenizer and instantiation code never index a BTreeMap with `[key]`",
             "R-UNSIGNED-SUB/len-sub: `parts.len() - k` in the code that takes user text apart has a dominating test for at least k parts",
             "R-ARRAY-INDEX-GUARD: computed positions in fixed arrays of the text parsing code are kept below the length by a dominating test or a bounded range",
             "R-CHASE-NEEDLE/nonempty: the list the next needle is popped from is known to be non-empty",
             "R-ELLPS-VALIDATED/writers: outside ParsedParameters::new only validated names (or literals) are stored under ellps* keys of the text map",
             "R-GRID-SIZE-CHECK: no BaseGrid holding its own values is shorter than the interpolation indexes it",
             "R-STR-SLICE also covers str::split_at and the byte-offset methods of String",
             "R-USER-I64-ARITH: every plain + / - on the i64 roll arguments in the stack interpreter is overflow-free by the known signs of its operands, or uses saturating / wrapping arithmetic",
             "R-UNSIGNED-SUB: no constant is subtracted from a natural-number parameter without a dominating test that the parameter is at least that large",
             "R-INDEX-VALIDATION (roll/unroll): a negative n below -m cannot reach stack_roll (m + n would wrap to a huge number of rotations)",
             "R-GRIDS-INDEX-GUARD: grids[k] in an operator function is read behind a non-emptiness test of that grid list",
             "R-GUARD-MATCH-AGREE: adapt's designator guard and designator match agree on the value tested and on the alphabet (the `cannot happen` arm yielding axis 0 is unreachable)",
             "R-INSERT-BOUND: in the tokenizer / PROJ translator every Vec::insert / Vec::remove at a constant position is backed by a lower bound on the length of that vector (its history, or a dominating non-emptiness test of the same value), or the position is clamped",
             "R-REMOVE-PAIR: tidy_proj removes the a= and rf= elements in an order decided by comparing the two saved "
             "indices (an unordered pair of Vec::remove calls panics when rf is written before a trailing a)",
             "R-KEY-AVAIL: every panicking keyed read of the parameter tables (unwrap of an accessor, map[key], "
             "series_as_*) is backed by the gamut, the implicit keys, an insert on every Ok path, or a conditional "
             "guarantee tied to the same dispatch literal / flag",
             "R-ELLPS-VALIDATED: Ellipsoid::named(..).unwrap() is preceded by validation of every ellps* text in "
             "ParsedParameters::new",
             "R-LOOP-RANK: every loop reachable from instantiation/apply and in the ellipsoid, angular, token, grid "
             "and coordinate modules has a ranking function",
             "R-REC-GUARD: bounded recursion", "T-ELLPS(parse): every table string parsed with unwrap is valid f64 syntax",
             "R-STR-SLICE: every byte-range slice of a str cuts at char boundaries (full range, find()/len() derived "
             "offsets, or a reviewed site)", "R-UNDERFLOW-GUARD: stack accesses are preceded by a depth test",
             "R-SLICE-INDEX-GUARD: in operator constructors a list-valued parameter is indexed only after a dominating test of its length that makes the index valid",
             "R-BILINEAR/cell-range: the clamps of BaseGrid::at keep all four node indices inside the grid",
             "R-INDEX-VALIDATION: list parameters that become array indices are validated as such: axisswap bounds the magnitude of each axis number and tests integrality and zero; stack push/pop/flip indices must be members of a literal list of integral values within 1..4"],
    not_decided=["index arithmetic and slicing in general (455 clippy indexing sites; no bounds prover attempted)",
                 "arithmetic overflow", "stack depth in bytes"],
    level="Decides the named panic/hang mechanisms on all paths; does not decide absence of every possible panic.",
    design_ref="DESIGN.md section 3, C09",
)
P["C12"] = dict(
    claimed=True,
    technique="static analysis: key-availability and dispatch-exhaustiveness between stack::new and stack_fwd/stack_inv",
    decides=["R-UNDERFLOW-GUARD/atomic: stack_pop / stack_roll / stack_flip take elements off the stack only after the depth was compared with the whole demand",
             "R-INDEX-VALIDATION/m-signed: roll / unroll compare the signed m with |n|",
             "R-STACK-DUAL/swap: swap exchanges the top two elements in both directions",
             "R-EXACTLY-ONE: the sub-command count of stack::new is a sum of +1 steps from 0",
             "R-USER-I64-ARITH: roll / unroll argument arithmetic cannot overflow (an out-of-range roll ends as `roll too deep`: NaN and zero successes)",
             "R-FLIP-SEQUENTIAL: each exchange of a flip reads the working tuple as the earlier exchanges left it",
             "R-STOMP-ALL: CoordinateSet::stomp overwrites whole tuples (set_coord with Coor4D::nan() for every index)",
             "R-INDEX-VALIDATION (roll/unroll): stack::new bounds |n| by m (a comparison with abs) and tests m and n for integrality",
             "R-KEY-AVAIL on the stack sub-commands: each arm reads the series its own sub-command stored",
             "R-DISPATCH-EXHAUSTIVE: every action literal stored by stack::new has an arm in stack_fwd and stack_inv",
             "R-STACK-DUAL: each arm of stack_fwd/stack_inv runs the documented primitive on its own series with the "
             "documented argument transform (id / reverse / (m, m-n))",
             "R-PUSHPOP-DUAL: legacy push and pop visit all four element flags, in opposite orders",
             "R-PIPE-DUAL: the interpreter exchanges push/pop and stack_fwd/stack_inv between directions",
             "R-UNDERFLOW-GUARD: every stack access is preceded by a depth test whose failing side stomps and returns 0",
             "R-STACK-LOCAL: the stack is a fresh local of each application; no persistent storage of stack type",
             "R-PIPE-MIN: an underflow (0) in any step makes the pipeline report 0",
             "R-UNDERFLOW-GUARD/exact: the depth tests are strict (`depth < demand` fails), a program needing exactly the available depth is not an underflow",
             "R-ARG-SELECTION: at every call of a crate function no argument is a caller variable named like another same-typed parameter of the callee (exchanged arguments of equal type, e.g. qs(e, sinphi), chase(&locals, globals, key))",
             "R-UNDERFLOW-GUARD/sub: a `depth - x` in a stack primitive is computed only after that very x has been tested against the depth",
             "R-LOOP-CARRIED: the stack primitives keep no running state across the operands of a set (depth counters, iterators)",
             "R-INDEX-VALIDATION: list parameters that become array indices are validated as such: axisswap bounds the magnitude of each axis number and tests integrality and zero; stack push/pop/flip indices must be members of a literal list of integral values within 1..4"],
    not_decided=["abstract-machine equivalence of the primitives", "constructor-time numeric validation"],
    level="Decides that the dispatch tables are total and read the right keys; the machine semantics are only "
          "partially decided (see DESIGN.md).",
    design_ref="DESIGN.md section 3, C12",
)

P["C15"] = dict(
    claimed=True,
    technique="static analysis: interprocedural affine bounds analysis of every read of the NTv2 byte buffer against "
              "dominating length comparisons; zero-divisor guards; constructor-established invariants needed by the "
              "query code; classification of every unwrap in grid::*; ranking functions; NTv2 record offsets vs the format",
    decides=["R-HEADER-PER-NUMBER: the header-or-value decision of the Gravsoft reader is taken in the loop over the numbers",
             "R-GRAVSOFT-ANGULAR: every boundary with |h| <= 360 counts as an angle",
             "R-BAND-ORDER: the first two bands of each node are exchanged",
             "R-HEADER-PRECISION: every number gravsoft_grid_reader stores as f64 is parsed as f64 (no detour through f32)",
             "R-NTV2-OFFSET-ACCUMULATES: the record offset handed to the NTv2 sub-grid decoder is built from loop state that accumulates",
             "R-GRID-SIZE-CHECK: under `offset value is 0 and rows * cols * bands exceeds the vector` the block that builds a BaseGrid is unreachable",
             "R-ROWCOUNT-AGREE: all row / column counts of the plain-grid code round with the same constant (reader and BaseGrid::plain agree on the size of the grid)",
             "R-COMMENT-FIRST: the Gravsoft reader cuts a line at its first `#`",
             "R-BOUNDED-READ: every read of the NTv2 buffer (slice ranges, indexed bytes) reachable from "
             "Ntv2Grid::new is dominated by a comparison with the buffer length that implies it is in bounds",
             "R-DIV-GUARD: every integer division/remainder in grid::* has a constant non-zero divisor or a dominating "
             "zero test", "R-GRID-INVARIANT: BaseGrid constructors establish rows >= 2 and cols >= 2 (needed by the "
             "clamps and subtractions of BaseGrid::at)", "R-UNWRAP-GRID: every unwrap in grid::* is a constant-length "
             "slice conversion, a constant-key lookup guaranteed by all constructors, or a reviewed site",
             "R-ALLOC-BOUND: file-derived allocation sizes are compared with the buffer length first",
             "R-LOOP-RANK: decoder and lookup loops terminate", "T-NTV2-OFFSETS: record offsets = 16k+8 in format order",
             "R-ENDIAN-ARMS: each getter pairs the big-endian flag with from_be_bytes and the other arm with from_le_bytes",
             "R-MULTIMAP: sub-grids sharing a parent are all kept",
             "R-SUBGRID-KEPT: every sub-grid record decoded by Ntv2Grid::new is stored and registered under its parent, whatever the order of the records",
             "R-NTV2-FIELDS: every field of the decoded NTv2 sub-grid header is read from the value part of the record of that name (dlon from LONG_INC ...)"],
    not_decided=["faithfulness of decoded values", "endianness handling", "binary/ASCII agreement",
                 "arithmetic overflow of header-derived products", "index arithmetic of BaseGrid::at beyond the row/col invariants"],
    level="Decides the memory-safety style clauses (no out-of-bounds read, no division by zero, no unguarded unwrap, "
          "no unbounded loop or allocation) of the grid decoders on all paths; value faithfulness is not decided.",
    design_ref="DESIGN.md section 3, C15",
)

P["C03"] = dict(
    claimed=True,
    technique="static analysis: shape, typestate and provenance rules on the two pipeline interpreter functions found "
              "through the operator registry; boolean abstract interpretation of the direction dispatch",
    decides=["R-NORMALIZE-KEEPS-SEPARATORS: normalize trims none of | < > off the ends of a definition",
             "R-FLAG-CASEFOLD: the macro branch of Op::op folds the case of `inv=True` like the Flag parameters do",
             "R-PIPELINE-WRAPPED: a pipeline definition is always handed to pipeline::new, whatever its number of steps",
             "R-PIPE-OWN-PARAMS (own-modifiers): the pipeline's own parameters are parsed from values that still hold the invocation's omit_fwd / omit_inv",
             "R-PIPELINE-NO-NAME: a pipeline that starts with a macro step is not taken for a macro invocation",
             "R-INV-DECLARED: every built-in constructor that registers an inverse declares the flag `inv` in its gamut (three reviewed exceptions: push, pop, stack)",
             "R-PIPE-ORDER: pipeline_fwd iterates op.steps in order, pipeline_inv in reverse, over all steps (no early "
             "exit), dispatching each non-skipped step exactly once",
             "R-PIPE-DUAL: skip flags / Direction constants / legacy push-pop-stack arms are exchanged between the "
             "two directions as documented", "R-PIPE-MIN: the reported count is min over executed steps, len() if none",
             "R-INV-SOURCE: every consumer of the inv modifier reads it from the tokenized parameter map",
             "R-INV-SCOPE: the invocation's inv is removed from the globals handed to a macro body",
             "R-NAME-SIBLING: is_resource_name() is decided on operator_name(), so prefix modifiers / sugar do not hide a macro step",
             "R-DISPATCH: Op::apply/handle_inversion truth tables",
             "R-PIPE-OWN-PARAMS: the pipeline constructor does not tokenize the text of its steps as its own parameter "
             "list (step modifiers cannot become modifiers of the enclosing pipeline)",
             "R-INV-HANDLED: every operator Op::op obtains from a constructor (user registered or built-in) passes through handle_op_inversion",
             "R-MODIFIER-ROTATE: the tokenizer rotates leading modifiers behind the operator name in a loop that re-tests the first element (several prefix modifiers, as produced by `<`/`>` plus inv)",
             "R-CHASE-CALLS: omit_fwd and omit_inv are looked up independently - each look-up lies on every path to the parsed result",
             "R-OMIT-SCOPE: the steps of a pipeline are built from globals from which the invocation's omit_fwd/omit_inv have been removed (a macro step with `inv omit_*` is the inverse of its expansion)"],
    not_decided=["</> desugaring and modifier rotation in the tokenizer", "bit-identity with stand-alone application "
                 "(follows from the shape but is not separately checked)", "omit_* leaking through globals"],
    level="Decides the interpreter's structure (order, duality, tally, modifier plumbing) on all paths; the "
          "tokenizer's string rewriting is not decided.",
    design_ref="DESIGN.md section 3, C03",
)

P["C13"] = dict(
    claimed=True,
    technique="static analysis: abstract interpretation of the value graph in a unit domain (deg/rad) and an additive "
              "polarity domain for the false origin; affine extraction of the UTM constants; sign-slice of aspect selection",
    decides=["R-SENTINEL-DEFAULT: a single Real parameter tested with is_nan() (as a presence test) has the gamut default NaN",
             "R-PLAIN-IDENTITY: Op::plain stores lat_k / lon_k as read, without arithmetic",
             "R-NO-INPUT-CLAMP/output: no value a plane projection writes is a clamp against constants",
             "R-LON0-EVERY-WRITE: every value written by the inverse (forward) function of a projection declaring lon_0 has a longitude (position) that depends on lon_0, special-cased aspects included",
             "R-LIMIT-ON-PLANE: the strip limit of the transverse Mercator inverse is applied to the input with the false easting removed",
             "R-PARALLELS-SYMMETRIC: every branch condition of lcc::new on an arithmetic combination of both standard parallels is symmetric in them, and lat_0 defaults to lat_1 on the strength of |lat_1 - lat_2| < eps",
             "R-LATTS-K0 (even): the decision to derive k_0 from lat_ts does not depend on the sign of lat_ts",
             "R-K0-LINEAR: for merc, lcc, btmerc, butm the forward easting / northing are exactly offset + k_0 * G (G free of k_0, offset exactly x_0 / y_0), and in the inverse every arithmetic expression of the input depends on it only through (input - offset) / k_0 (exact rational-function identities)",
             "R-SIGN-CARRIER: the sign of a sexagesimal lon_0 / lat_0 / lat_ts is taken from the sign bit and the hemisphere letter on every returned value",
             "R-UNSIGNED-SUB: utm's zone arithmetic cannot underflow for zones 1..60",
             "R-UNIT-TYPESTATE: in the ten plane projections every degree-valued parameter (lat_*, lon_*, latc, lonc, "
             "alpha, gamma_c, lat_ts) is converted to radians exactly once before it meets arithmetic with coordinates, "
             "trigonometric or ellipsoid functions; parameters the constructor re-stores in radians are not converted again",
             "R-FALSE-ORIGIN: forward, x_0/y_0 enter the written easting/northing with additive polarity exactly +1 "
             "(through stored intermediates such as tmerc's zb); inverse, every use is `input - origin`",
             "R-UTM-CONSTANTS: both utm constructors set k_0=0.9996, lon_0=6*zone-183, lat_0=0, x_0=500000, y_0=0 / "
             "10000000 under south, zone in 1..=60", "R-NOOP-ALIAS: noop aliases write nothing and return len()",
             "R-SIGN-SLICE: north/south aspect selection depends on the sign of the latitude parameter",
             "R-PARAM-EFFECT: (program slice) every parameter an operator declares reaches the values it writes, directly "
             "or through a key its constructor derives from it - no declared parameter is silently ignored",
             "R-DIMENSION: (units-of-measure inference) every addition, subtraction and comparison in the ellipsoid geometry and in the operators with documented tuple conventions joins quantities of one physical dimension, transcendental functions get dimensionless arguments, and written tuple elements have the documented dimension (length / angle / time)",
             "R-KEY-DECLARED: every parameter an operator reads is declared in its gamut under the documented name (utm accepts ellps, ...)",
             "R-MODE-FLAG-USED: every mode or aspect flag a constructor itself records (laea north_polar/south_polar/oblique, helmert rotated/dynamic/fixed_time, null_grid ...) is consulted by the operator: a detected mode is a handled mode",
             "R-NO-LAT-SHIFT: in the transverse Mercator family lat_0 is never added to a latitude read or written (it enters through the meridian arc as the origin of the northings)",
             "R-LATTS-K0: the k_0 that merc derives from lat_ts replaces a given k_0 (depends on lat_ts and the ellipsoid only)"],
    not_decided=["k_0 linearity", "lat_ts == corresponding k_0", "1SP == 2SP lcc", "merc == webmerc on a sphere",
                 "scaling with the semi-major axis"],
    level="Decides the unit, false-origin, UTM-constant and alias conventions structurally on all paths; the "
          "numerical equivalences between parameterisations are not decided.",
    design_ref="DESIGN.md section 3, C13",
)

P["C19"] = dict(
    claimed=True,
    technique="static analysis: element-wise value-graph comparison of every CoordinateSet impl with the documented "
              "defaults; dominance of dimension guards; sign-carrier rule for the sexagesimal conversions",
    decides=["R-ANGULAR-ACCESSORS: each *_to_<unit> default accessor converts x and y alike, and the 2-, 3- and 4-element variants of a unit agree",
             "R-SETTER-NO-INVENTED: the specialised set_xy / set_xyz of coordinate::set store no tuple built with a constant element",
             "R-WIDEN-FIRST: functions of coordinate:: that return f64 (or an f64 tuple) do no arithmetic in f32",
             "R-ISO-OPERATORS-PLAIN: the dm / dms operators apply the ISO-6709 conversions and nothing else in their loops",
             "R-OPS-ELEMENTWISE: the 40 macro-generated + - * / operators of the tuple types compute element k from elements k of both operands, for all k below the dimension",
             "R-CTOR-SIBLINGS: geo, gis, raw, arcsec, iso_dm, iso_dms, nan, origin, ones compute their horizontal elements alike for all four tuple types",
             "R-SUBSET-DIM: a container of d-dimensional tuples specialises xyz / set_xyz only for d >= 3 and xyzt / set_xyzt only for d >= 4",
             "R-SIGN-CARRIER (odd form): in signum(x) * g(|x|) the magnitude g uses x through |x| only",
             "R-DIM-GUARD (checked writes): a default method that writes element by element through set_nth keeps its own index below dim()",
             "R-ADAPTER-FIXED: the fixed height / epoch of a 2D+ adapter is not changed by writing a tuple",
             "T-CONTAINER-DEFAULTS: every get_coord impl (2D/32-bit, 3D, 4D, height/epoch adapters) returns the stored "
             "dimensions in order, height 0 and epoch NaN for missing ones, the adapter's fixed fields where supplied; "
             "every set_coord stores exactly the stored dimensions in order",
             "R-DIM-GUARD: in the CoordinateTuple defaults every *_nth_unchecked(k), k != 0, is dominated by k < dim()",
             "R-SIGNUM-ZERO: no conversion takes the sign of a degree-minute-second sum from an integer signum()",
             "R-DEFAULT-RMW: default CoordinateSet::set_xy/set_xyz/set_xyzt write the given values to the leading elements and every other element as read from the same index",
             "R-SIGN-CARRIER: the ISO 6709 converters and parse_sexagesimal are of the form signum(x) * g(|x|): angles with zero whole degrees keep a negative sign",
             "R-ANGLE-RANGE: normalize_symmetric / normalize_positive return input + 2 pi k inside the documented range (interval case analysis on the sign of the remainder)",
             "R-ALL-DIMS: the default element-wise operations scale and dot range over 0..dim()"],
    not_decided=["numeric loss / rounding of the encodings", "normalisation ranges", "arithmetic operator impls"],
    level="Decides the structural clauses of container and encoding consistency; rounding behaviour is not decided.",
    design_ref="DESIGN.md section 3, C19",
)
P["C20"] = dict(
    claimed=True,
    technique="static analysis of bin kp's MIR: per-iteration typestate of the output loop, dominance of emptiness and "
              "length guards, boolean abstract interpretation of the direction logic, error-propagation provenance",
    decides=["R-KP-CONTEXT: kp builds its operation in a Plain context",
             "R-KP-EVERY-LINE: the only test that skips an input line is the one for an empty token list",
             "R-KP-ROUNDTRIP/all-tuples: the loop forming the roundtrip residuals is not bounded by the number of successful transformations",
             "R-KP-SKIP-AFTER-CUT: the line loop tests the token list for emptiness after the comment was cut off (comment-only lines are skipped)",
             "R-KP-ERRORS/lines: the io::Result items of the line iterator reach a `?`; the iterator is not wrapped in map_while / flatten / filter_map",
             "R-KP-DIMENSION/width: every call of transform() receives the running maximum of the input widths",
             "R-KP-NO-PREROUND: transform() does no rounding arithmetic of its own on the results",
             "R-KP-WIDTH-MONOTONE: the input width handed to transform is a running maximum, never reset inside the reading loops",
             "R-KP-DIMENSION: the output match dispatches on options.dimension.unwrap_or(input width) itself; the input width is measured after the comment was cut off",
             "R-COMMENT-FIRST: kp handles the comment character by first-occurrence primitives only",
             "R-ONE-LINE: the output loop visits all operands in order and prints exactly one line per tuple",
             "R-EMPTY-INDEX: operands[0] is read only where the batch is known to be non-empty",
             "R-KP-SLICE: the default-row tail slice starts within the row for any number of columns",
             "R-KP-DIRECTION: --inv / --roundtrip select Fwd/Inv as documented; the reference copy precedes the first apply",
             "R-KP-ERRORS: errors of ctx.op, ctx.apply, File::open reach main's Result through `?`",
             "R-KP-DEFAULTS: missing height/time default to 0/NaN; -z/-t override elements 2/3",
             "R-BATCH-RESET: after an intermediate transform() in the reading loop the buffer is emptied on every path back to the loop header",
             "R-SIGN-CARRIER: the sexagesimal parser kp reads its input with keeps the sign of angles with zero whole degrees",
             "R-KP-ROUNDTRIP: the roundtrip residual is the roundtrip result minus the saved input, in this order",
             "R-KP-DECIMALS: no branch of transform depends on the value of the requested number of decimals"],
    not_decided=["the printed digits (formatting, rounding, decimals/dimension per batch)", "comment/blank handling"],
    level="Decides the structural clauses of kp (one line per tuple, direction, error propagation, no panic on empty / "
          "wide input); what is printed is not decided.",
    design_ref="DESIGN.md section 3, C20",
)

P["C14"] = dict(
    claimed=True,
    technique="static analysis: wiring rules between sibling implementations (contexts, adapt/axisswap/unitconvert, "
              "operators vs their parameter declarations) and exact series identities between tables of different origin",
    decides=["R-FULL-CIRCLE: `azimuth + 180` is reduced modulo 360",
             "R-ELLPS-FROM-PARAMS: no operator module builds its ellipsoid from Ellipsoid::default() or a literal name",
             "R-CURVATURE-RADIANS: every latitude handed to a radius-of-curvature method in curvature::fwd is converted from degrees",
             "R-NOOP-EXACT: adapt's no-op decision compares the multipliers exactly (axisswap and adapt agree on sign-only mappings)",
             "R-OP-NO-REGISTRATION: instantiating does not change what names mean in either context",
             "R-POLAR-HEIGHT: cart's inverse and GeoCart::geographic both take the height on the polar axis as |Z| minus the semiminor axis",
             "R-RF-ZERO-CONVENTION: Ellipsoid::named and TriaxialEllipsoid::named treat the table's spheres alike",
             "R-PROJ-PASSTHROUGH: Plain (which filters every definition through parse_proj) and Minimal see the same text for every Rust Geodesy definition",
             "R-TABLE-LOOKUP-EXACT: the biaxial and triaxial constructors use the same (equality) predicate over the ellipsoid table",
             "R-KEY-DECLARED (constructors, indexed accessors): a constructor does not read ellps(k), lat(k) ... for a key its gamut does not declare (it would always get the built-in default)",
             "R-K0-LINEAR: for merc, lcc, btmerc, butm the forward easting / northing are exactly offset + k_0 * G (G free of k_0, offset exactly x_0 / y_0), and in the inverse every arithmetic expression of the input depends on it only through (input - offset) / k_0 (exact rational-function identities)",
             "R-CURVATURE-MEANS: the gaussian, mean and azimuthal radii of the curvature operator satisfy, as exact rational functions of M, N and sin/cos of the azimuth, R^2 = M N, R (M + N) = 2 M N and Euler's R (N cos^2 + M sin^2) = M N",
             "R-CONTEXT-AGREE: Minimal and Plain provide the same globals, forward (direction, operands) unchanged to "
             "Op::apply of the stored operator, and hand the definition to Op::new unchanged (Plain: through parse_proj only)",
             "R-KEY-DECLARED: every parameter key an operator reads at apply time is declared by its gamut or stored by "
             "its constructor (a mis-keyed option would make the operator disagree with the ellipsoid method it wraps)",
             "R-GATHER-SCATTER / R-UNITCONVERT-WIRING: adapt, axisswap and unitconvert move and scale elements as "
             "their shared mappings require", "T-SERIES-CROSS: the Krueger series equals rectifying o conformal^-1 "
             "(tables from different papers agree exactly to n^6)",
             "R-DIMENSION: (units-of-measure inference) every addition, subtraction and comparison in the ellipsoid geometry and in the operators with documented tuple conventions joins quantities of one physical dimension, transcendental functions get dimensionless arguments, and written tuple elements have the documented dimension (length / angle / time)",
             "R-PARAM-MIRROR: forward and inverse of the operators that wrap ellipsoid methods depend on the same parameters (same ellipsoid in both directions)",
             "R-WRAPPER-DISPATCH: each variant (flag / action) of the latitude, curvature and gravity operators applies exactly the ellipsoid method documented for it, forward and inverse (the operator and the method are the same route)",
             "R-ARG-SELECTION: at every call of a crate function no argument is a caller variable named like another same-typed parameter of the callee (exchanged arguments of equal type, e.g. qs(e, sinphi), chase(&locals, globals, key))",
             "R-ITER-CAP-AGREE: the geodesic operator rejects only runs at the iteration cap of the ellipsoid method (threshold within 1% of the cap), so operator and method agree on every converged solution",
             "R-INDEX-SPACE: adapt reads the multiplier of the source descriptor at the gathered index (agreement of adapt with axisswap for the mappings they share)",
             "R-PARITY: (parity abstract interpretation) under reflection in the equator the cart operator's inverse and Ellipsoid::geographic give longitude and height even and latitude odd in Z on every branch; Ellipsoid::cartesian gives X, Y even and Z odd in the latitude; the auxiliary latitudes are odd, the radii of curvature and the normal gravity formulas even in the latitude",
             "R-SIBLING-ELEMENTS: the five gravity formula helpers read latitude and height from the same tuple elements",
             "T-UNITS: unit factors equal the published values (unitconvert and adapt share the angular mappings exactly)",
             "R-TUPLE-LOOP-COMPLETE: the per-tuple loops of the wrapper operators visit every tuple",
             "R-NO-LAT-SHIFT: in the transverse Mercator family lat_0 is never added to a latitude read or written (it enters through the meridian arc as the origin of the northings)"],
    not_decided=["every numerical agreement listed in the statement (tmerc vs btmerc, cart vs geocart inverse, "
                 "series vs closed forms and quadrature)"],
    level="Decides wiring agreement between independent routes; numerical agreement is not decided.",
    design_ref="DESIGN.md section 3, C14",
)
P["C16"] = dict(
    claimed=True,
    technique="static analysis: declaration/use agreement of parameter keys between gamuts, constructors and readers",
    decides=["R-NORMALIZE-KEEPS-SEPARATORS/continuation-after-line-ends: continuation colons are looked for after CR was turned into LF, and replaced by a line break",
             "R-SEXAGESIMAL-REFUSALS: no NaN result of parse_sexagesimal is decided by the size of a parsed part",
             "R-TYPED-EXTRACT/demands: every arm with an optional default can return MissingParam",
             "R-SPLIT-EXHAUSTIVE/whitespace-kind: the tokenizer splits at one kind of white space throughout",
             "R-NORMALIZE-KEEPS-SEPARATORS/continuation: a continuation colon is replaced by white space, not by nothing",
             "R-SPLIT-EXHAUSTIVE: series and sexagesimal values are taken apart with str::split and loops over the parts are not cut short (zip / take)",
             "R-FLAG-CASEFOLD: every comparison of a parameter value with `true` in op:: and token:: folds the case first",
             "T-SUBSCRIPTS: every subscript-digit replacement of normalize writes the same digit behind an underscore",
             "R-COMMENT-FIRST: the tokenizer cuts a line at its first `#` (no last-occurrence primitive is handed the comment character)",
             "R-SIGN-CARRIER (suffix): every value parse_sexagesimal returns carries the sign of the hemisphere letter",
             "R-BADPARAM-ORDER: every Error::BadParam built by ParsedParameters::new has the gamut key first and the offending value second",
             "R-KEY-DECLARED: every key read by an operator (flags included) is declared in its gamut, stored by its "
             "constructor, or implicit; so a declared flag is what the operator consults ('flags are true when present')",
             "R-TYPED-EXTRACT: in ParsedParameters::new each OpParameter variant is parsed by the parser of the declared type (usize / i64 / parse_sexagesimal / none) and naturals and integers are stored unconverted",
             "R-SIGN-CARRIER: parse_sexagesimal takes the sign of the angle from the sign bit (signum) of the degrees field whose magnitude it uses, so -0:30 keeps its sign",
             "R-MODIFIER-ROTATE: position of modifiers - every leading modifier is rotated behind the name, not only the first",
             "R-ELLPS-SHADOW: a declared ellps_0 is not dead behind the always-present default of ellps",
             "R-TYPED-EXTRACT/rejects: each numeric arm keeps its BadParam rejection",
             "R-NORMALIZE-ORDER: no later replacement of normalize can create the pattern of an earlier one (blank removal next to `=` precedes the subscript replacements); split_into_steps maps CR LF and bare CR to LF"],
    not_decided=["idempotence of normalize and equivalence of differently formatted texts (string rewriting on all "
                 "inputs)", "parsing of each value type", "defaults, required parameters, last-wins, unknown keys ignored"],
    level="Decides only the declaration/use agreement clause of 'parameters are typed as declared'; the tokenizer's "
          "layout-insignificance clauses are not decidable by static analysis and are not claimed.",
    design_ref="DESIGN.md section 3, C16",
)
P["C17"] = dict(
    claimed=True,
    technique="static analysis: who-calls and dataflow rules on Plain::op and parse_proj (value graph, control dependence)",
    decides=["R-PROJ-TIDY-VERBATIM: tidy_proj does not parse parameter values as numbers",
             "R-PROJ-PLUS/line-ends: a lone CR is turned into LF before the text is taken apart",
             "R-PROJ-LINE-SEPARATED: where the lines of a PROJ definition are appended in a loop, white space is appended with them",
             "R-PROJ-COMMENT: the comment sign is searched as the bare `#`",
             "R-PROJ-PLUS/contexts: the `+` prefix is removed behind a blank and at the start of a line",
             "R-PROJ-GLOBALS-KEPT: the filter that builds the pipeline globals excludes exactly the element `inv`",
             "R-PROJ-PASSTHROUGH: a definition containing `|`, and one not containing `proj`, never reaches the translation (three-valued reachability over the guard)",
             "R-PROJ-TIDY-INDEPENDENT: the k= -> k_0= repair is reached whichever way the a / rf repair is decided",
             "R-PROJ-PLUS: `+` is removed only where it starts a token (after white space or at the start of the text)",
             
        "R-PROJ-FILTER: Plain::op instantiates exactly what parse_proj returns for the definition it was given",
        "R-PROJ-INVERSION: the reversal of the step order, the inversion of each step and the exchange of omit_fwd / "
        "omit_inv are all controlled by one and the same pipeline-level inversion flag (an ordinary pipeline keeps its "
        "omissions)",
        "R-PROJ-GLOBALS: pipeline globals are inserted right after the operator name, before the step's own arguments "
        "(a step-local value of the same key comes later and wins)",
        "R-PROJ-REFUSALS: init= clauses and a proj=pipeline element in a later step end in an Unsupported error; every "
        "element of a step is tested for init= (the test is not cut short by the search for proj=)",
        "R-INSERT-BOUND: no insertion / removal at a constant position into a vector of unknown length",
        "R-PROJ-FILTER (unconditional): every alternative value of the definition handed to Op::new is the translator's "
        "result - no fast path that skips parse_proj",
        "R-PROJ-GLOBALS (tidy-first): tidy_proj rewrites the step's own a / rf / k before the globals are inserted",
        "R-REMOVE-PAIR: tidy_proj's removal of the a= and rf= elements is ordered by a comparison of the two saved "
        "indices (also a no-panic obligation of C09)",
    ],
    not_decided=["the string semantics of the translation on all PROJ texts: pass-through of non-PROJ text, idempotence, "
                 "the a/rf/k rewriting of tidy_proj, comment and whitespace handling",
                 "equality of behaviour with the hand-written Geodesy counterpart (follows only where the clauses above "
                 "and C03/C04/C16 cover it)"],
    level="Decides four structural clauses of the translator (what is filtered, how a pipeline-level inv is applied, where "
          "globals go, what is refused); the string rewriting itself is not decided.",
    design_ref="DESIGN.md section 12.6",
)
P["C18"] = dict(
    claimed=True,
    technique="static analysis: ownership/typing argument made explicit: deep field-type walk (no interior "
              "mutability), who-may-write rule for the context tables, resolution-order dominance in Op::op, fresh "
              "handles, grid-cache access set, and compile-fail witnesses with compiling twins",
    decides=["R-REGISTER-FOUND/tag-is-fence: the tag searched for starts with the opening fence (nothing demanded in front of it)",
             "R-REGISTRATION-FIRST/only-if-absent: files are read only on the side of the look-up where nothing was registered under the name",
             "R-FILE-BEFORE-REGISTER: in each search directory the `.resource` file is read before the `.md` register",
             "R-REGISTER-FOUND/line-ends-first, closing-fence: the tag is searched in text with its CR replaced; the end of an item is the bare fence",
             "R-REGISTER-FOUND: once the opening tag of a register item is found, get_resource returns on every path (a missing closing fence at end of file included)",
             "R-OP-NO-REGISTRATION: Context::op of Minimal and Plain registers no resources or operators",
             "R-PATH-ORDER: Plain::default pushes the local ./geodesy onto the search path before the per-user directory",
             "R-RESOLUTION-ORDER (same-name): user operators, macros and built-ins are all looked up under the operator name of the definition being instantiated",
             "T-FREEZE: Op, OpDescriptor, ParsedParameters, BaseGrid, Ntv2Grid, Minimal, Plain contain no interior mutability",
             "R-WHO-WRITES: the operator/resource/constructor tables are written only by insert in op / "
             "register_resource / register_op; no Context method hands out a mutable or owned Op",
             "W-BORROW: an InnerOp cannot mutate its Op; registration needs &mut while apply needs &; tables are private; "
             "Op is not Clone; handles cannot be forged; both contexts are Send + Sync (14 witnesses incl. twins)",
             "R-FRESH-ID: every Op gets a fresh random handle", "R-RESOLUTION-ORDER: pipeline, then user operator "
             "(no colon) or macro (colon), then built-in; a found user definition is final",
             "R-GRID-CACHE: the process-wide grid cache is touched only by get_grid/clear_grids; grids leave it as Arc "
             "clones; no Arc mutation, no unsafe", "R-CONTEXT-AGREE",
             "R-CONTEXT-OP-FRESH: every Ok(handle) returned by Context::op is preceded by Op::new and the insertion of the new operator (no handle of an older operator is handed out)",
             "R-REGISTRATION-FIRST: in Plain::get_resource the look-up among run-time registrations dominates every file read",
             "R-NAME-SIBLING: is_resource_name and the macro branch of Op::op agree on what a macro name is (contains a colon)",
             "R-CACHE-KEY: the process-wide grid cache is read and written under the grid name as given, the same value the file is searched under",
             "R-SEARCH-ALL-PATHS: the loops over the search paths (resources, grids) are left early only by returning a result - a directory lacking the item does not end the search"],
    not_decided=["file based macro lookup semantics (get_resource string handling, fenced blocks)"],
    level="Decides immutability after instantiation, precedence of registrations and resolution order as structural / "
          "type-level facts valid for all histories and schedules; register file parsing is not decided.",
    design_ref="DESIGN.md section 3, C18",
)

NA = {
    "C17": "semantics of the PROJ string translator on all PROJ texts; any static rule would be a frozen fragment of "
           "parse_proj (see DESIGN.md section 4)",
}

ALL = ["C%02d" % i for i in range(1, 21)]


def not_yet(pid):
    return "no static check built yet for this property in this revision of /verif (planned: DESIGN.md section 3)"
