#!/usr/bin/env python3
"""Apply every behaviour-preserving edit of refactors/ (or the ones named) to a scratch copy of /repo and run all quick
checks on it: prints one line per edit, CLEAN or the obligation keys that fired. Exit 1 if any edit is not clean.
usage: refactor_silence.py [-j N] [ids...]"""
import concurrent.futures
import json
import os
import shutil
import subprocess
import sys

HERE = os.path.dirname(os.path.abspath(__file__))
ROOT = os.path.dirname(HERE)
sys.path.insert(0, HERE)
import selftest_run as s  # noqa: E402

PIDS = ["C%02d" % i for i in range(1, 21)]


def one(k, base):
    d = s.make_copy("/repo")
    try:
        err = s.apply_edit(d, {"patch": "%s/%s/patch.diff" % (base, k)})
        if err:
            return k, "STALE %s" % err
        title = json.load(open(os.path.join(ROOT, base, k, "meta.json"))).get("title", "")
        bad = []
        for pid in PIDS:
            r = subprocess.run([sys.executable, os.path.join(HERE, "check.py"), pid, "--repo", d, "--no-evidence"],
                               stdout=subprocess.PIPE, stderr=subprocess.STDOUT, text=True)
            keys = [ln.split("key=", 1)[1].strip() for ln in r.stdout.splitlines() if "key=" in ln and "rule=" in ln]
            if keys or r.returncode != 0:
                bad.append((pid, keys[:3]))
        return k, "%s -> %s" % (title[:60], "CLEAN" if not bad else bad)
    finally:
        shutil.rmtree(d, ignore_errors=True)


if __name__ == "__main__":
    args = sys.argv[1:]
    j = 4
    if args[:1] == ["-j"]:
        j = int(args[1])
        args = args[2:]
    base = "refactors"
    ks = args or sorted(os.listdir(os.path.join(ROOT, base)))
    rc = 0
    with concurrent.futures.ThreadPoolExecutor(max_workers=j) as ex:
        for k, res in ex.map(lambda k: one(k, base), ks):
            print(k, res, flush=True)
            if "CLEAN" not in res:
                rc = 1
    sys.exit(rc)
