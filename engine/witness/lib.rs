//! Compile-fail / compile-pass witnesses for the ownership argument behind properties C02 and C18, written as an
//! external user of `geodesy`. Each `fail_*` witness is paired with a `pass_*` twin that differs only in the offending
//! line (a witness whose paths are merely wrong also "fails to compile"). Run with `cargo +nightly test --doc`
//! (the stable toolchain ignores the error code of `compile_fail,E....`).
#![allow(non_camel_case_types)]

/// An InnerOp receives `&Op`: it cannot change the operator's parameters.
/// ```compile_fail,E0596
/// use geodesy::authoring::*;
/// fn fwd(op: &Op, _ctx: &dyn Context, operands: &mut dyn CoordinateSet) -> usize {
///     op.params.real.insert("x", 1.0);
///     operands.len()
/// }
/// let _ = InnerOp(fwd);
/// ```
pub struct fail_innerop_mutates_params;

/// Twin of `fail_innerop_mutates_params`: reading is fine.
/// ```
/// use geodesy::authoring::*;
/// fn fwd(op: &Op, _ctx: &dyn Context, operands: &mut dyn CoordinateSet) -> usize {
///     let _ = op.params.real.get("x");
///     operands.len()
/// }
/// let _ = InnerOp(fwd);
/// ```
pub struct pass_innerop_reads_params;

/// An InnerOp cannot flip the inversion flag of the operator it runs for.
/// ```compile_fail,E0594
/// use geodesy::authoring::*;
/// fn fwd(op: &Op, _ctx: &dyn Context, operands: &mut dyn CoordinateSet) -> usize {
///     op.descriptor.inverted = true;
///     operands.len()
/// }
/// let _ = InnerOp(fwd);
/// ```
pub struct fail_innerop_flips_inverted;

/// Twin of `fail_innerop_flips_inverted`.
/// ```
/// use geodesy::authoring::*;
/// fn fwd(op: &Op, _ctx: &dyn Context, operands: &mut dyn CoordinateSet) -> usize {
///     let _ = op.descriptor.inverted;
///     operands.len()
/// }
/// let _ = InnerOp(fwd);
/// ```
pub struct pass_innerop_reads_inverted;

/// While the step list of an operation is borrowed, nothing can be registered or instantiated in the same context.
/// ```compile_fail,E0502
/// use geodesy::prelude::*;
/// let mut ctx = Minimal::default();
/// let h = ctx.op("addone | addone").unwrap();
/// let steps = ctx.steps(h).unwrap();
/// let _h2 = ctx.op("addone").unwrap();
/// assert_eq!(steps.len(), 2);
/// ```
pub struct fail_op_while_steps_borrowed;

/// Twin of `fail_op_while_steps_borrowed`: the borrow has ended.
/// ```
/// use geodesy::prelude::*;
/// let mut ctx = Minimal::default();
/// let h = ctx.op("addone | addone").unwrap();
/// let steps = ctx.steps(h).unwrap();
/// assert_eq!(steps.len(), 2);
/// let _h2 = ctx.op("addone").unwrap();
/// ```
pub struct pass_op_after_steps_borrow;

/// The table of instantiated operators is private to the context.
/// ```compile_fail,E0616
/// use geodesy::prelude::*;
/// let ctx = Minimal::default();
/// let _ = ctx.operators.len();
/// ```
pub struct fail_private_operator_table;

/// The table of instantiated operators is private to the Plain context as well.
/// ```compile_fail,E0616
/// use geodesy::prelude::*;
/// let ctx = Plain::default();
/// let _ = ctx.operators.len();
/// ```
pub struct fail_private_operator_table_plain;

/// An Op cannot be duplicated (and so cannot be altered on a copy and swapped in).
/// ```compile_fail,E0277
/// use geodesy::authoring::*;
/// fn dup(op: &Op) -> Op {
///     Clone::clone(op)
/// }
/// ```
pub struct fail_op_clone;

/// Twin of `fail_op_clone`: parameters can be copied out, the Op itself cannot.
/// ```
/// use geodesy::authoring::*;
/// fn dup(op: &Op) -> ParsedParameters {
///     Clone::clone(&op.params)
/// }
/// ```
pub struct pass_params_clone;

/// Handles cannot be forged from a chosen identifier.
/// ```compile_fail,E0423
/// use geodesy::prelude::*;
/// let _h = OpHandle(Default::default());
/// ```
pub struct fail_forge_handle;

/// Twin of `fail_forge_handle`: handles come from the context (or OpHandle::new()).
/// ```
/// use geodesy::prelude::*;
/// let _h = OpHandle::new();
/// ```
pub struct pass_fresh_handle;

/// Both contexts can be shared between threads for `apply` (which takes `&self`).
/// ```
/// use geodesy::prelude::*;
/// fn is_send_sync<T: Send + Sync>() {}
/// is_send_sync::<Minimal>();
/// is_send_sync::<Plain>();
/// let mut ctx = Minimal::default();
/// let op = ctx.op("addone").unwrap();
/// let ctx = &ctx;
/// std::thread::scope(|s| {
///     for _ in 0..2 {
///         s.spawn(move || {
///             let mut data = [Coor4D::raw(1., 2., 3., 4.)];
///             assert_eq!(ctx.apply(op, Fwd, &mut data).unwrap(), 1);
///             assert_eq!(data[0][0], 2.);
///         });
///     }
/// });
/// ```
pub struct pass_shared_apply_from_threads;

/// `apply` needs only a shared reference, `op` / `register_*` need an exclusive one.
/// ```compile_fail,E0596
/// use geodesy::prelude::*;
/// let ctx = Minimal::default();
/// let shared = &ctx;
/// let _ = shared.op("addone");
/// ```
pub struct fail_op_through_shared_reference;
