"""The operator registry read from the program itself: BUILTIN_OPERATORS -> constructors -> InnerOp pairs, gamuts,
apply-reachable and construct-reachable sets, and a call graph over resolved callees."""
import consts
import mir


def fn_of_term(t):
    """the function path carried by a term such as cast(const fn) / const fn"""
    t = mir.strip_refs(t)
    while t[0] == "cast":
        t = t[2]
    if t[0] == "const" and isinstance(t[2], tuple) and t[2][0] == "fn":
        return t[2][1]
    return None


def innerop_of_term(t):
    """InnerOp[fn] aggregate -> fn path ; returns None if not of that shape"""
    t = mir.strip_refs(t)
    if t[0] == "agg" and isinstance(t[1], tuple) and t[1][0] == "adt" and t[1][1].endswith("InnerOp"):
        return fn_of_term(t[2][0])
    return None


def option_of_term(t):
    """Option aggregate -> ('Some', inner) | ('None', None) | None"""
    t = mir.strip_refs(t)
    if t[0] == "agg" and isinstance(t[1], tuple) and t[1][0] == "adt" and t[1][1].endswith("Option"):
        if t[1][2] == "Some":
            return ("Some", t[2][0])
        return ("None", None)
    return None


def const_path_of_term(t):
    t = mir.strip_refs(t)
    while t[0] == "cast":
        t = mir.strip_refs(t[2])
    if t[0] == "const" and isinstance(t[2], tuple) and t[2][0] == "path":
        return t[2][1]
    return None


class Constructor:
    def __init__(self, path):
        self.path = path
        self.names = []
        self.fwd = None
        self.inv = None          # fn path or None
        self.inv_kind = None     # "Some" | "None" | "unknown"
        self.gamut_const = None
        self.gamut = None
        self.via_plain = False
        self.desc_site = None    # (fn name, bb) of OpDescriptor::new / Op::plain
        self.helpers = []        # local fns called with &mut Op / &mut ParsedParameters


class Registry:
    def __init__(self, facts):
        self.f = facts
        self.rows = []
        self.ctors = {}
        self.problems = []
        self._cg = None
        self._build()

    def _build(self):
        hits = consts.find_consts(self.f, "BUILTIN_OPERATORS")
        if len(hits) != 1:
            self.problems.append("BUILTIN_OPERATORS not found")
            return
        tab = consts.fold(self.f.const(hits[0])["hir"]["value"], self.f)
        for row in tab:
            name = row[0]
            ctor = row[1]["args"][0].get("__path")
            self.rows.append((name, ctor))
            c = self.ctors.setdefault(ctor, Constructor(ctor))
            c.names.append(name)
        for path, c in self.ctors.items():
            if not self.f.has_fn(path):
                self.problems.append("constructor %s has no body" % path)
                continue
            self._scan_ctor(c)

    def _scan_ctor(self, c):
        f = self.f.fn(c.path)
        for bb, t in f.calls():
            callee = f.callee(t) or ""
            args = None
            if callee.endswith("op::Op::plain"):
                args = f.arg_terms(bb)
                c.via_plain = True
                c.fwd = innerop_of_term(args[1])
                o = option_of_term(args[2])
                c.gamut_const = const_path_of_term(args[3])
                c.desc_site = (c.path, bb)
            elif callee.endswith("op_descriptor::OpDescriptor::new"):
                args = f.arg_terms(bb)
                c.fwd = innerop_of_term(args[1])
                o = option_of_term(args[2])
                c.desc_site = (c.path, bb)
            elif callee.endswith("parsed_parameters::ParsedParameters::new"):
                a = f.arg_terms(bb)
                c.gamut_const = const_path_of_term(a[1])
                continue
            else:
                continue
            if o is None:
                c.inv_kind = "unknown"
            elif o[0] == "Some":
                c.inv_kind = "Some"
                c.inv = innerop_of_term(o[1])
            else:
                c.inv_kind = "None"
        if c.gamut_const:
            cc = self.f.const(c.gamut_const)
            if cc is not None:
                try:
                    c.gamut = consts.fold(cc["hir"]["value"], self.f)
                except consts.Unfoldable:
                    c.gamut = None

    # ---- call graph ------------------------------------------------------------------------------------------------
    def callgraph(self):
        """fn -> set of local callees (resolved), with fn items stored in aggregates or passed as values counted as
        edges (closures, InnerOp fn pointers are *not* followed here: see apply_reachable)."""
        if self._cg is not None:
            return self._cg
        cg = {}
        for name in self.f.fn_names():
            f = self.f.fn(name)
            out = set()
            for bb, t in f.calls(reachable_only=False):
                r = t.get("resolved") or t.get("callee")
                if r and self.f.has_fn(r):
                    out.add(r)
                elif r:
                    out.add("ext:" + r)
                else:
                    out.add("fnptr")
            # closures and fn items mentioned as constants/aggregates
            for bb in range(f.n):
                for s in f.stmts(bb):
                    if s["k"] == "assign":
                        rv = s["rv"]
                        if rv["k"] == "agg" and rv.get("agg") == "closure":
                            out.add(rv["closure"])
                        for o in _operands_of_rvalue(rv):
                            cst = o.get("const")
                            if cst and "fn" in cst:
                                p = cst.get("fn_resolved") or cst["fn"]
                                if self.f.has_fn(p):
                                    out.add(p)
                t = f.term(bb)
                if t["k"] == "call":
                    for o in t["args"]:
                        cst = o.get("const")
                        if cst and "fn" in cst:
                            p = cst.get("fn_resolved") or cst["fn"]
                            if self.f.has_fn(p):
                                out.add(p)
            cg[name] = out
        self._cg = cg
        return cg

    def reachable_from(self, roots, follow_virtual=True):
        cg = self.callgraph()
        seen = set()
        st = [r for r in roots if r]
        impls = self._virtual_targets() if follow_virtual else {}
        while st:
            x = st.pop()
            if x in seen or x not in cg:
                continue
            seen.add(x)
            for y in cg[x]:
                if y in cg and y not in seen:
                    st.append(y)
                if y in impls:
                    for z in impls[y]:
                        if z not in seen:
                            st.append(z)
        return seen

    def _virtual_targets(self):
        """trait method path -> local implementing fns (for dyn Grid and the crate's own traits)"""
        out = {}
        for name, d in self.f.lib["fns"].items():
            tr = d.get("impl_trait")
            if tr:
                meth = name.split("::")[-1]
                out.setdefault(tr + "::" + meth, set()).add(name)
        return out

    def innerops(self):
        s = set()
        for c in self.ctors.values():
            if c.fwd:
                s.add(c.fwd)
            if c.inv:
                s.add(c.inv)
        return s

    def apply_reachable(self):
        return self.reachable_from(self.innerops())


def _operands_of_rvalue(rv):
    out = []
    for k in ("a", "b"):
        if k in rv and isinstance(rv[k], dict):
            out.append(rv[k])
    for o in rv.get("ops", []):
        out.append(o)
    return out
