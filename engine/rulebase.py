"""Rule registry, check context, obligations."""
import json
import os

HERE = os.path.dirname(os.path.abspath(__file__))
VERIF = os.path.dirname(HERE)

RULES = []  # (name, [properties], fn, tiers)
PROPERTY_TEXT = {}


def rule(name, props, tiers=("quick", "thorough")):
    def deco(fn):
        RULES.append((name, list(props), fn, tuple(tiers)))
        return fn
    return deco


class Ob:
    def __init__(self, prop, rule, inst, ok, what, where=None, detail=None, nontrivial=True):
        self.prop = prop
        self.rule = rule
        self.inst = inst
        self.key = "%s/%s" % (rule, inst)
        self.ok = bool(ok)
        self.what = what
        self.where = where
        self.detail = detail
        self.nontrivial = nontrivial


def spec(name):
    return json.load(open(os.path.join(VERIF, "spec", name)))


class Cx:
    def __init__(self, facts, tier, pid):
        self.f = facts
        self.tier = tier
        self.pid = pid
        self.obs = []
        self.counts = {}
        self._floors = spec("floors.json")
        self._reviewed = {r["key"]: r["reason"] for r in spec("reviewed_sites.json")["sites"]}
        self._reg = None

    def ob(self, rule, inst, ok, what, where=None, detail=None, nontrivial=True):
        if not ok:
            rv = self._reviewed.get("%s/%s" % (rule, inst))
            if rv is not None:
                ok = True
                what = "reviewed site (%s): %s" % (rv, what)
                self.counts["reviewed_sites.used"] = self.counts.get("reviewed_sites.used", 0) + 1
        o = Ob(self.pid, rule, inst, ok, what, where, detail, nontrivial)
        self.obs.append(o)
        return o

    def count(self, rule, counter, n):
        self.counts["%s.%s" % (rule, counter)] = n

    def check_floors(self):
        for k, n in sorted(self.counts.items()):
            fl = self._floors.get(self.pid, {}).get(k)
            if fl is None:
                fl = self._floors.get("*", {}).get(k)
            if fl is None:
                continue
            self.ob(k.split(".")[0], "floor/" + k.split(".", 1)[1], n >= fl,
                    "instance count %s = %d (floor %d, hand-counted)" % (k, n, fl)
                    if n >= fl else
                    "anchor-missing: instance count %s = %d fell below the hand-counted floor %d; the rule would "
                    "pass vacuously" % (k, n, fl), nontrivial=False)

    def where(self, span):
        if not span:
            return None
        return "%s:%s" % (self.f.rel(span.get("file", "?")), span.get("line"))

    # ---- shared registries -------------------------------------------------------------------------------------
    def registry(self):
        import registry
        if self._reg is None:
            self._reg = registry.Registry(self.f)
        return self._reg


def _load_text():
    import proptext
    for pid, p in proptext.P.items():
        PROPERTY_TEXT[pid] = {
            "explanation": "Static analysis (no geodesy code is run). " + p["level"] + " Technique: " + p["technique"] + ".",
            "decides": p["decides"],
            "not_decided": p["not_decided"],
            "assumptions": proptext.COMMON_ASSUME,
        }


_load_text()
